"""Check C08: argument binding / conversion (Params.tla) and message round trip."""
from __future__ import annotations

import itertools
import json
import os
import random
import sys
import time
from typing import Any, Dict, Iterator, List

ROOT = os.path.dirname(os.path.dirname(os.path.abspath(__file__)))
sys.path.insert(0, ROOT)
from engine import common, mbt, tlc  # noqa: E402

TYS = ["int", "float", "str", "bool", "listint", "model", "dc", "optint", "dupa", "dupb", "num", "num", "plain"]


def switches() -> Dict[str, bool]:
    with open(os.path.join(ROOT, "spec", "tree_switches.json")) as f:
        return json.load(f)["params"]


def _drive_batch(scn: Dict[str, Any]) -> Dict[str, Any]:
    from harness import par_driver
    return par_driver.run_batch(scn)


def legal_sigs(n: int) -> Iterator[List[Dict[str, Any]]]:
    opts = [{"reg": r, "an": a, "def": d, "dep": dp} for r in ("pos", "kw") for a in ("none", "any", "T") for d in (False, True)
            for dp in (False, True) if not (d and dp)]
    for combo in itertools.product(opts, repeat=n):
        ok = True
        for i in range(n - 1):
            if combo[i]["reg"] == "kw" and combo[i + 1]["reg"] != "kw":
                ok = False
            if combo[i]["reg"] == "pos" and combo[i + 1]["reg"] == "pos" and (combo[i]["def"] or combo[i]["dep"]) \
                    and not (combo[i + 1]["def"] or combo[i + 1]["dep"]):
                ok = False
        if ok:
            yield [dict(p) for p in combo]


def legal_calls(sig: List[Dict[str, Any]]) -> Iterator[List[Dict[str, Any]]]:
    n = len(sig)
    maxpos = n
    for i, p in enumerate(sig):
        if p["reg"] == "kw" or p["dep"]:
            maxpos = i
            break
    for npos in range(0, maxpos + 1):
        rest = [i for i in range(npos, n) if not sig[i]["dep"]]
        must = [i for i in rest if not sig[i]["def"]]
        opt = [i for i in rest if sig[i]["def"]]
        for k in range(len(opt) + 1):
            for chosen in itertools.combinations(opt, k):
                kws = sorted(must + list(chosen))
                yield [{"p": i + 1, "how": "pos"} for i in range(npos)] + [{"p": i + 1, "how": "kw"} for i in kws]


def gen_cases(seed: int, max_params: int, per_case: int, budget: int) -> List[Dict[str, Any]]:
    rng = random.Random(("par", seed).__repr__())
    cases = []
    for n in range(1, max_params + 1):
        for sig in legal_sigs(n):
            for call in legal_calls(sig):
                for rep in range(per_case):
                    s2 = [dict(p, ty=rng.choice(TYS)) for p in sig]
                    c2 = []
                    for c in call:
                        p = s2[c["p"] - 1]
                        if p["an"] == "T":
                            vc = rng.choice(["conv", "conv", "nconv", "native", "none", "model", "dc", "convfalsy"])
                        else:
                            vc = rng.choice(["native", "none", "model", "dc", "conv"])
                        c2.append(dict(c, vc=vc))
                    # the caller may also bind a dependency parameter explicitly by keyword: the caller's value wins
                    for i, p in enumerate(s2, start=1):
                        if p["dep"] and not any(c["p"] == i for c in c2) and rng.random() < 0.3:
                            c2.append({"p": i, "how": "kw", "vc": rng.choice(["native", "conv", "none"])})
                    cases.append({"sig": s2, "call": c2, "parse": rng.random() < 0.8, "late": rng.random() < 0.25,
                                  "fmt": rng.choice(["proxy_json", "proxy_json", "proxy_pickle", "json"]), "seed": len(cases),
                                  "shadow": len(cases) % 4 == 3,
                                  # every fifth case: the worker is built by the command line route (flag parsing and wiring)
                                  "via": "cli" if len(cases) % 5 == 2 else ("api" if len(cases) % 5 == 4 else "direct"),
                                  "noprop": (len(cases) // 5) % 2 == 1})
    if len(cases) > budget:
        # keep every (n<=2) case, sample the rest deterministically
        small = [c for c in cases if len(c["sig"]) <= 2]
        big = [c for c in cases if len(c["sig"]) > 2]
        rng.shuffle(big)
        cases = small + big[:max(0, budget - len(small))]
    return cases


def run_check(prop: str, tier: str) -> int:
    rep = common.Reporter(prop)
    t0 = time.time()
    seed = common.seed()
    sw = switches()
    q = tier == "quick"
    text = (f"SPECIFICATION Spec\nCONSTANTS\n  ArgnumCountsAnnotatedOnly = {mbt.b(sw['ArgnumCountsAnnotatedOnly'])}\n  MaxParams = {3 if q else 4}\n"
            "INVARIANT C08_Binding\nCHECK_DEADLOCK FALSE\n")
    r = tlc.run_tlc("Params", cfg_text=text, workers=16, timeout=1500 if q else 7000)
    model_findings: List[str] = []
    if r.get("invariant_violated"):
        model_findings = r["invariant_violated"]
        rep.info("MODEL-FINDING: the model configured like the tree violates %s" % model_findings)
        states = transitions = 1
    elif not r.get("ok_finished") or "distinct" not in r:
        common.die_machinery(prop, "TLC failed:\n" + r["out"][-2500:])
    else:
        states, transitions = r["distinct"], max(r["generated"], 1)
    rep.info(f"model checking: {states} signature/call cases (all legal signatures up to {3 if q else 4} parameters x all legal calls)")
    cases = gen_cases(seed, 3 if q else 4, 1 if q else 2, 20000 if q else 400000)
    scns = [{"cases": cases[i:i + 400]} for i in range(0, len(cases), 400)]
    traces = mbt.drive("engine.par_check", "_drive_batch", scns)
    verdicts = mbt.observe(traces, "ObsParams", shards=12, per_shard_min=1)
    viol_n = 0
    for i, v in enumerate(verdicts):
        for clause, idx in v.items():
            if not clause.startswith(prop + "_"):
                continue
            viol_n += 1
            if viol_n <= 5:
                case = scns[i]["cases"][idx - 1]
                path = common.save_replay(prop, {"kind": "par", "property": prop, "clause": clause, "scenario": {"cases": [case]}})
                rep.violation(path, f"clause {clause}: {json.dumps(case)[:400]} -> {json.dumps(traces[i]['ev'][idx - 1]['obs'])[:300]}")
    n = sum(len(t["ev"]) for t in traces)
    nontriv = len({json.dumps([e["sig"], e["call"], e["parse"]], sort_keys=True) for t in traces for e in t["ev"]
                   if any(o["convertible"] for o in e["obs"]) and len(e["call"]) >= 2})
    samples = [{"case": scns[i]["cases"][j], "observed": traces[i]["ev"][j]["obs"]} for i, j in ((0, 0), (len(scns) // 2, 5), (len(scns) - 1, 0))
               if j < len(scns[i]["cases"])]
    coverage = {
        "states": states, "transitions": transitions, "traces_validated_against_impl": n, "samples": samples,
        "evaluations": n, "distinct_nontrivial": nontriv,
        "rule": "case = signature (<= 3/4 parameters over {positional, keyword-only} x {un-annotated, Any, annotated} x {default, dependency}) + legal split of the "
                "arguments into positional/keyword + a value class per argument (convertible, not convertible, None, native, pydantic model, dataclass); "
                "executed through the real kicker -> formatter -> Receiver.callback; distinct by (signature, call, parse flag); "
                "non-trivial: >= 2 arguments and at least one convertible annotated one",
        "signature_call_cases_enumerated_by_tlc": states,
        "formatters": ["ProxyFormatter+JSONSerializer", "ProxyFormatter+PickleSerializer", "JSONFormatter"],
        "skipped_serializers": ["orjson", "msgpack", "cbor2 (not installed in this image)"],
        "checker_cmd": "tlc Params (C08_Binding over all legal signature/call cases) / ObsParams (verdict per recorded real call)",
        "exhaustive": False, "model_switches": sw,
    }
    common.write_evidence(prop, tier, coverage, [
        "generated task functions (exec) report locals(); 'converted' is defined by pydantic.TypeAdapter(T).validate_python on the prepared value, as the property names it",
        "concrete values inside a class are drawn from a seeded pool (JSON trees, unicode, big ints, floats); not enumerated",
    ], time.time() - t0, viol_n)
    rep.info(f"{n} real calls judged, {viol_n} violations, {time.time() - t0:.0f}s")
    if model_findings and not rep.violations:
        common.die_machinery(prop, "the model (configured like the tree) fails %s but no real execution does" % model_findings)
    return rep.exit_code()


def replay(prop: str, path: str) -> int:
    with open(path) as f:
        doc = json.load(f)
    traces = mbt.drive("engine.par_check", "_drive_batch", [doc["scenario"]])
    v = mbt.observe(traces, "ObsParams", shards=1, per_shard_min=1)[0]
    print(json.dumps(traces[0]["ev"][0], indent=1))
    print("clauses false:", v)
    if any(c.startswith(prop + "_") for c in v):
        print(f"VIOLATION property={prop} replay={path}")
        return 1
    return 0

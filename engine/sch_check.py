"""Checks C15 (scheduler loop) and C16 (on_ready callbacks/payload + label-based source)."""
from __future__ import annotations

import hashlib
import itertools
import json
import os
import random
import sys
import tempfile
import time
from typing import Any, Dict, Iterator, List

ROOT = os.path.dirname(os.path.dirname(os.path.abspath(__file__)))
sys.path.insert(0, ROOT)
from engine import common, mbt, tlc  # noqa: E402

MIN = 60000


def switches() -> Dict[str, bool]:
    with open(os.path.join(ROOT, "spec", "tree_switches.json")) as f:
        return json.load(f)["scheduler"]


def _drive_one(scn: Dict[str, Any]) -> Dict[str, Any]:
    from harness import sched_driver
    ev = sched_driver.run(scn)
    for e in ev:
        e.setdefault("ids", [])
    return {"cfg": tla_cfg(sched_driver.normalize(scn["cfg"])), "ev": ev}


def tla_cfg(c: Dict[str, Any]) -> Dict[str, Any]:
    return {"start": c["start"], "horizon": c["horizon"], "minute": c["minute"], "second": c["second"], "kicklat": c["kicklat"],
            "kickfail": [list(x) for x in c["kickfail"]],
            "srcs": [{"lat": s["lat"], "pre": s["pre"], "post": s["post"], "removes": s["removes"], "fail": s["fail"], "future": s.get("future", False),
                      "sched": [{"sid": x["sid"], "kind": x["kind"], "mins": x["mins"], "T": x["T"], "cancel": x["cancel"]} for x in s["sched"]
                                if not x.get("bad")]}
                     for s in c["srcs"]]}


# ------------------------------------------------------------------ scenario families
def _cron(sid: int, rng: random.Random) -> Dict[str, Any]:
    kind = rng.random()
    if kind < 0.3:
        mins = list(range(60))
    elif kind < 0.6:
        mins = list(range(rng.randint(0, 1), 60, 2))
    else:
        mins = sorted(rng.sample(range(0, 8), rng.randint(1, 4)))
    return {"sid": sid, "kind": "cron", "mins": mins, "cancel": rng.random() < 0.08, "lblsid": rng.random() < 0.15}


def _once(sid: int, rng: random.Random, start: int, horizon: int) -> Dict[str, Any]:
    b = rng.randint(0, horizon // MIN) * MIN
    off = rng.choice([0, 1, 100, 500, 999, 1000, 1001, 1500, 30000, 59000, 59900, -1, -100, -500, -1000, rng.randint(0, 59999)])
    return {"sid": sid, "kind": "once", "T": max(-120000, b + off), "cancel": rng.random() < 0.06, "naive": rng.random() < 0.5,
            "lblsid": rng.random() < 0.15}


STARTS = [0, 1, 3, 250, 500, 700, 999, 1000, 1500, 30000, 59000, 59400, 59999, 60000, 60000, 120000]


def gen_random(seed: int, n: int, long_p: float = 0.1) -> List[Dict[str, Any]]:
    rng = random.Random(("sched", seed).__repr__())
    out = []
    for _ in range(n):
        start = rng.choice(STARTS + [rng.randint(0, 59999)])
        horizon = rng.randint(2, 6) * MIN + rng.choice([0, 500, 5000, 30000])
        if rng.random() < long_p:
            horizon = rng.randint(10, 30) * MIN + 7000
        very_long = len(out) % 40 == 17
        if very_long:
            horizon = rng.randint(125, 190) * MIN + 3000          # more than two hours: "minute m of every hour" recurs
        sid = 0
        srcs = []
        for _ in range(rng.randint(1, 3)):
            sched = []
            for _ in range(rng.randint(0, 3)):
                sid += 1
                sched.append(_cron(sid, rng) if rng.random() < 0.45 else _once(sid, rng, start, horizon))
            npolls = horizon // MIN + 1
            if rng.random() < 0.4 and len(sched) >= 2:
                for x in sched:
                    x["tn"] = 900 + len(srcs)          # all schedules of this source fire the same task, with different labels
            srcs.append({"lat": 0, "pre": rng.choice(["", "", "sync", "async"]), "post": rng.choice(["sync", "async"]),
                         "future": rng.random() < 0.3,
                         "removes": True, "fail": sorted(rng.sample(range(1, npolls + 1), rng.randint(0, min(2, npolls)))) if rng.random() < 0.4 else [],
                         "sched": sched})
        if len(out) % 4 == 1:
            # a schedule with a malformed cron expression, listed BEFORE the others of its source (lowest id): only it is skipped
            for src in srcs[:1]:
                if src["sched"]:
                    low = min(x["sid"] for x in src["sched"])
                    # ids are listed in ascending order: id 0 comes before every other one
                    src["sched"].insert(0, {"sid": 0, "kind": "cron", "mins": [1], "cancel": False, "lblsid": False, "bad": True})
        if very_long:
            sid += 1
            srcs[0]["sched"].append({"sid": sid, "kind": "cron", "mins": [rng.randint(0, 59)], "cancel": False, "lblsid": False})   # hourly
        kickfail = [[rng.randint(1, max(1, sid)), rng.randint(1, 2)] for _ in range(rng.randint(0, 2))] if rng.random() < 0.4 else []
        steps: List[Any] = []
        for _ in range(rng.randint(0, 3)):
            t = rng.randint(start, horizon)
            if rng.random() < 0.6:
                sid += 1
                spec = _cron(sid, rng) if rng.random() < 0.4 else _once(sid, rng, start, horizon)
                steps.append([t, "add", rng.randint(1, len(srcs)), spec])
            elif sid:
                steps.append([t, "remove", rng.randint(1, len(srcs)), rng.randint(1, sid)])
        reuse = None
        if len(out) % 6 == 2 and not very_long:
            # the id of a one-shot schedule that has fired (and was removed by its source) is used again for a new schedule
            olds = [(si0, x) for si0, src0 in enumerate(srcs) for x in src0["sched"]
                    if x["kind"] == "once" and not x["cancel"] and 0 <= x["T"] <= horizon - 3 * MIN and src0["pre"] != "async"]
            if olds:
                si0, x0 = rng.choice(olds)
                fired = max(x0["T"], start)
                boundary = (fired // MIN + 1) * MIN
                if rng.random() < 0.5 and fired + 3500 < boundary:
                    # used again within the same minute, for a time just after the next poll
                    t_again = fired + 3000
                    t_new = boundary + rng.choice([500, 20000, 45000])
                else:
                    t_again = boundary + rng.choice([2000, 15000, 40000])
                    t_new = t_again + rng.choice([-5000, 1000, 20000, 45000, 70000])
                spec2 = dict(_once(x0["sid"], rng, start, horizon), sid=x0["sid"], cancel=False, lblsid=False, T=t_new)
                steps.append([t_again, "add", si0 + 1, spec2])
                reuse = x0["sid"]
        for si, src in enumerate(srcs):   # every third schedule is created the public way: kicker.schedule_by_*(source, ...)
            src["edit"] = si % 2 == 1     # this source's pre_send stamps a label on the schedule it is about to let through
            for x in src["sched"]:
                x["viak"] = x["sid"] % 3 == 0 or (len(out) % 4 == 2 and x["sid"] % 3 == 2)     # sometimes two per source (same prepared kicker)
                x["noid"] = (x["sid"] % 3 == 1 or (x["viak"] and len(out) % 2 == 0)) and not x.get("lblsid")
                if x["kind"] == "once" and not x.get("naive"):
                    x["tzh"] = (0, 2, -7, 13)[x["sid"] % 4]        # target time written on clocks with different UTC offsets
        for st in steps:
            if st[1] == "add":
                st[3]["viak"] = st[3]["sid"] % 3 == 0
        out.append({"cfg": {"start": start, "horizon": horizon, "srcs": srcs, "kickfail": kickfail, "kicklat": rng.choice([0, 0, 0, 300])},
                    "steps": steps, "family": "sched_random"})
        if reuse is not None:
            for src in srcs:                  # an id can only be used again if it was given explicitly the first time
                for x in src["sched"]:
                    if x["sid"] == reuse:
                        x["noid"] = False
            out[-1]["noconf"] = True          # Scheduler.tla adds schedules under fresh ids only
            out[-1]["cfg"]["kickfail"] = [kf for kf in kickfail if kf[0] != reuse]
        if rng.random() < 0.1 and reuse is None:
            out[-1]["cfg"]["kicklat"] = 75000
        if reuse is not None:
            out[-1]["cfg"]["kicklat"] = 0        # the first use of the id is over (sent, removed) before the id is used again
    return out


def gen_latency(seed: int, n: int) -> List[Dict[str, Any]]:
    """Slow sources (listing takes 5 ms .. 2.5 s), also straddling a minute boundary, and very slow kicks (75 s).
    Not conformance-checked (the model keeps listing latency at 0); judged by the observer only."""
    out = []
    for sc in gen_random(seed + 77, n, long_p=0.0):
        rng = random.Random(repr(sc["cfg"]["start"]) + repr(len(out)))
        lat = rng.choice([5, 400, 1500, 2500])
        for s in sc["cfg"]["srcs"]:
            s["lat"] = rng.choice([0, lat])
            s["fail"] = []
        sc["cfg"]["srcs"][0]["lat"] = lat
        if rng.random() < 0.5:
            sc["cfg"]["start"] = 60000 - rng.choice([1, 3, lat // 2 + 1])     # the first listing crosses the boundary
        sc["cfg"]["kicklat"] = rng.choice([0, 0, 300, 75000])
        sc["steps"] = []
        sc["family"] = "sched_latency"
        sc["noconf"] = True
        out.append(sc)
    return out


def gen_label(seed: int, n: int) -> List[Dict[str, Any]]:
    """The real LabelScheduleSource inside the loop (generated schedule ids; removal by post_send)."""
    rng = random.Random(("schedlabel", seed).__repr__())
    out = []
    for _ in range(n):
        start = rng.choice(STARTS)
        horizon = rng.randint(2, 5) * MIN + 3000
        sched = []
        for sid in range(1, rng.randint(2, 4)):
            sched.append(_cron(sid, rng) if rng.random() < 0.4 else _once(sid, rng, start, horizon))
        for sp in sched:
            sp["cancel"] = False
        onces = [sp for sp in sched if sp["kind"] != "cron"]
        if len(onces) >= 2 and rng.random() < 0.5:
            # entries of ONE task, some with the very same target time (they differ in arguments only)
            for sp in onces:
                sp["ltask"] = onces[0]["sid"]
            if rng.random() < 0.7:
                onces[1]["T"] = onces[0]["T"]
                onces[1]["naive"] = onces[0].get("naive", False)
        npolls = horizon // MIN + 1
        out.append({"cfg": {"start": start, "horizon": horizon,
                            "srcs": [{"label": True, "pre": "", "post": "sync", "removes": True, "sched": sched,
                                      "fail": sorted(rng.sample(range(1, npolls + 1), 1)) if rng.random() < 0.3 else []}],
                            "kickfail": [[rng.randint(1, 3), 1]] if rng.random() < 0.3 else []},
                    "steps": [], "family": "sched_label_source"})
    return out


def gen_sweep(full: bool) -> Iterator[Dict[str, Any]]:
    """Every start offset x one-shot target time around the first two boundaries (sub-second resolution)."""
    offs = [-60000, -1500, -1000, -999, -500, -100, -1, 0, 1, 100, 499, 500, 999, 1000, 1001, 1500, 2000, 30000, 58999, 59000, 59999]
    starts = STARTS if full else [0, 3, 700, 999, 59000, 59999]
    for start in starts:
        for b in (MIN, 2 * MIN):
            for off in (offs if full else offs[::2] + [1000, 999]):
                T = b + off
                for pre in ("", "async"):
                    yield {"cfg": {"start": start, "horizon": 4 * MIN + 2000,
                                   "srcs": [{"pre": pre, "sched": [{"sid": 1, "kind": "once", "T": T, "naive": (T // 100) % 2 == 0},
                                                                     {"sid": 2, "kind": "cron", "mins": [0, 1, 3]}]}]},
                           "steps": [], "family": "sched_sweep"}


# ------------------------------------------------------------------ model configurations (short minute)
def mc_cfgs(tier: str) -> List[Dict[str, Any]]:
    q = tier == "quick"
    mnt, sec = 12, 4
    cfgs = []
    starts = [0, 1, 3] if q else [0, 1, 2, 3, 5, 11]
    Ts = [12, 13, 14, 16, 17, 11] if q else [10, 11, 12, 13, 14, 15, 16, 17, 18, 24, 28]
    for st in starts:
        for T in Ts:
            cfgs.append({"start": st, "horizon": 3 * mnt + 2, "minute": mnt, "second": sec, "kicklat": 0, "kickfail": [],
                         "srcs": [{"lat": 0, "pre": "", "post": "sync", "removes": True, "fail": [], "future": False,
                                   "sched": [{"sid": 1, "kind": "once", "mins": [], "T": T, "cancel": False},
                                             {"sid": 2, "kind": "cron", "mins": [0, 2], "T": 0, "cancel": False}]}]})
    # faults and callbacks
    cfgs.append({"start": 1, "horizon": 3 * mnt + 2, "minute": mnt, "second": sec, "kicklat": 0, "kickfail": [[1, 1], [3, 2]],
                 "srcs": [{"lat": 0, "pre": "async", "post": "async", "removes": True, "fail": [2], "future": True,
                           "sched": [{"sid": 1, "kind": "once", "mins": [], "T": 14, "cancel": False},
                                     {"sid": 2, "kind": "cron", "mins": [0, 1, 2, 3], "T": 0, "cancel": True}]},
                          {"lat": 0, "pre": "sync", "post": "sync", "removes": True, "fail": [], "future": False,
                           "sched": [{"sid": 3, "kind": "cron", "mins": [0, 1, 2], "T": 0, "cancel": False}]}]})
    return cfgs


def mc_adds() -> List[Dict[str, Any]]:
    return [{"sid": 9, "kind": "once", "mins": [], "T": 13, "cancel": False}]


def const_text(sw: Dict[str, bool], allowed: List[str], cfgs: str = "Cfgs <- JsonCfgs", adds: str = "AddSpecs <- JsonAdds") -> str:
    return f"CONSTANTS\n  DedupInFlight = {mbt.b(sw['DedupInFlight'])}\n  {cfgs}\n  {adds}\n  AllowedViol = {mbt.strset(allowed)}\n"


def _nontrivial(prop: str, tr: Dict[str, Any]) -> bool:
    ev = tr["ev"]
    if prop == "C15":
        kicks = [e for e in ev if e["e"] == "kick"]
        return len(kicks) >= 2 and len({e["t"] // MIN for e in ev if e["e"] == "poll"}) >= 2
    return any(e["e"] in ("presend", "postsend") for e in ev) and any(e["e"] == "kick" for e in ev)


def run_check(prop: str, tier: str, extra: Any = None) -> int:
    rep = common.Reporter(prop)
    t0 = time.time()
    seed = common.seed()
    sw = switches()
    q = tier == "quick"
    # ---- design: exhaustive over start offsets x target times x faults with a 12-unit minute
    scratch = tlc.scratch_dir("sch")
    addf = os.path.join(scratch, "adds.json")
    with open(addf, "w") as f:
        json.dump(mc_adds(), f)
    text = "SPECIFICATION Spec\n" + const_text(sw, []) + "INVARIANT NoViolation\nCHECK_DEADLOCK FALSE\n"
    r = mbt.mc("MC_Sch", mc_cfgs(tier), text, timeout=1500 if q else 7000, env_extra={"ADD_FILE": addf})
    model_findings: List[str] = []
    if r.get("invariant_violated") and "distinct" in r:
        model_findings = r["invariant_violated"]
        rep.info("MODEL-FINDING: the model configured like the tree violates %s" % model_findings)
    elif not r.get("ok_finished") or "distinct" not in r:
        common.die_machinery(prop, "TLC failed:\n" + r["out"][-2500:])
    states, transitions = r["distinct"], r["generated"]
    rep.info(f"model checking: {states} distinct states, {transitions} transitions ({r['n_cfgs']} configurations, minute = 12 units)")
    # ---- real executions
    scns = list(gen_sweep(full=not q)) + gen_random(seed, 500 if q else 6000) + gen_label(seed, 150 if q else 2000) + \
        gen_latency(seed, 200 if q else 2500)
    for kf in common.known_findings():
        if kf["property"] == prop and kf.get("regression_scenario"):
            scns.append(dict(kf["regression_scenario"], family="ledger:" + kf["id"]))
    # entry points: the bare loop, taskiq.api.run_scheduler_task, and the command line (SchedulerArgs.from_cli -> run_scheduler)
    for i, scn in enumerate(scns):
        if not str(scn.get("family", "")).startswith("ledger:"):
            scn["cfg"].setdefault("via", ("loop", "api", "cli")[i % 3])
            scn["cfg"].setdefault("stop_at_end", i % 2 == 1)
            if scn["cfg"]["via"] == "cli" and scn["cfg"].get("start", 0) % 60000 == 0 and scn["cfg"].get("start", 0) >= 60000:
                scn["cfg"].setdefault("skipfirst", True)
                scn["cfg"].setdefault("skipoff", (29600, 500, 59400, 1)[i % 4])
    traces = mbt.drive("engine.sch_check", "_drive_one", scns)
    verdicts = mbt.observe(traces, "ObsSched", shards=8 if q else 16)
    viol_n = 0
    for i, v in enumerate(verdicts):
        for clause, idx in v.items():
            if not clause.startswith(prop + "_"):
                continue
            viol_n += 1
            if viol_n <= 5:
                path = common.save_replay(prop, {"kind": "sched", "property": prop, "clause": clause, "event_index": idx,
                                                 "scenario": {"cfg": scns[i]["cfg"], "steps": scns[i].get("steps", [])}})
                rep.violation(path, f"clause {clause} false after event {idx} of {len(traces[i]['ev'])} (family {scns[i].get('family')})")
    # ---- conformance
    ncf = 250 if q else 3000
    step = max(1, len(traces) // ncf)
    idxs = [i for i in range(0, len(traces), step) if not scns[i].get("noconf")][:ncf]
    ctext = "SPECIFICATION TraceSpec\n" + const_text(sw, [], cfgs="Cfgs = {}", adds="AddSpecs = {}") + \
            "INVARIANT Progress\nPOSTCONDITION Done\nCHECK_DEADLOCK FALSE\n"
    try:
        cf = mbt.conform([traces[i] for i in idxs], "TraceSched", ctext)
    except tlc.TLCError as exc:
        if not rep.violations:
            raise
        rep.info('conformance run failed after violations were found: ' + str(exc)[:300])
        cf = []
    accepted = sum(1 for a, b_ in cf if a == b_)
    for (a, b_), i in zip(cf, idxs):
        if a != b_:
            rep.divergence(f"trace of family {scns[i].get('family')} not explained by the model beyond event {a - 1} of {b_ - 1}")
    canon = set()
    nontriv = 0
    for tr in traces:
        h = hashlib.sha1(json.dumps([tr["cfg"], tr["ev"]], sort_keys=True).encode()).hexdigest()
        if h not in canon:
            canon.add(h)
            nontriv += 1 if _nontrivial(prop, tr) else 0
    fam: Dict[str, int] = {}
    for s in scns:
        fam[s.get("family", "?")] = fam.get(s.get("family", "?"), 0) + 1
    samples = [{"scenario": {"cfg": scns[i]["cfg"], "steps": scns[i].get("steps", [])},
                "trace_head": [[e["t"], e["e"], e["src"], e["sid"], e["n"], e["ok"]] for e in traces[i]["ev"][:20]],
                "clauses_false": verdicts[i]} for i in (0, len(scns) // 2, len(scns) - 1)]
    coverage = {
        "states": states, "transitions": transitions, "traces_validated_against_impl": len(traces), "samples": samples,
        "evaluations": len(traces), "distinct_nontrivial": nontriv,
        "rule": "scenario = start offset (ms) + sources with cron/one-shot schedules + fault placements + dynamic add/remove, executed by the real "
                "run_scheduler_loop for 2-30 virtual minutes; distinct by (configuration, events); non-trivial: >=2 sends over >=2 poll rounds (C15) / "
                "source callbacks observed around a send (C16)",
        "events_checked": sum(len(t["ev"]) for t in traces), "families": fam,
        "virtual_minutes": sum(t["cfg"]["horizon"] // MIN for t in traces),
        "model_conformance": {"checked": len(cf), "accepted": accepted}, "model_switches": sw,
        "checker_cmd": "tlc ObsSched (verdict) / TraceSched (conformance) / MC_Sch (design)", "exhaustive": False,
    }
    extra_viol = 0
    assumptions = [
        "real run_scheduler_loop / get_task_delay / delayed_send / TaskiqScheduler.on_ready / AsyncKicker from /repo's working tree on the virtual-time loop; "
        "taskiq.cli.scheduler.run.datetime is replaced so that wall clock = base + loop time (they agree, asyncio.sleep is exact)",
        "sources are scripted recorders that remove a one-shot they have sent (as the label and Redis sources do); cron schedules use minute-field patterns "
        "(the calendar part is C13's subject)",
    ]
    if extra is not None:
        for k in ("traces_validated_against_impl", "evaluations", "distinct_nontrivial", "events_checked"):
            coverage[k] += extra["coverage"].get(k, 0)
        coverage["label_source"] = extra["coverage"]
        extra_viol = extra["violations"]
        assumptions += extra["assumptions"]
    common.write_evidence(prop, tier, coverage, assumptions, time.time() - t0, viol_n + extra_viol)
    rep.info(f"{len(traces)} real scheduler runs ({coverage['virtual_minutes']} virtual minutes), {viol_n} violations, "
             f"conformance {accepted}/{len(cf)}, {time.time() - t0:.0f}s")
    if model_findings and not rep.violations:
        common.die_machinery(prop, "the model (configured like the tree) fails %s but no real execution does" % model_findings)
    return rep.exit_code()


def replay(prop: str, path: str) -> int:
    with open(path) as f:
        doc = json.load(f)
    traces = mbt.drive("engine.sch_check", "_drive_one", [doc["scenario"]])
    v = mbt.observe(traces, "ObsSched", shards=1)[0]
    for i, e in enumerate(traces[0]["ev"], 1):
        print(i, e["t"], e["e"], e["src"], e["sid"], e["n"], e["ok"], e["s"], e["ids"])
    print("clauses false:", v)
    if any(c.startswith(prop + "_") for c in v):
        print(f"VIOLATION property={prop} replay={path}")
        return 1
    return 0

"""Engines for the receiver properties (C01-C07, C10 exec side, C12).

mc        - exhaustive TLC run of Receiver.tla on a configuration family
simulate  - TLC -simulate behaviours of the model, projected to environment moves
drive     - execute scenarios against the real code (rx_driver, subprocess pool)
observe   - TLC on ObsReceiver.tla: property clauses evaluated on every prefix
conform   - TLC on TraceReceiver.tla: is each real trace a behaviour of the model
"""
from __future__ import annotations

import json
import multiprocessing as mp
import os
import shutil
import sys
import tempfile
import time
from typing import Any, Dict, List, Optional, Tuple

ROOT = os.path.dirname(os.path.dirname(os.path.abspath(__file__)))
sys.path.insert(0, ROOT)

from engine import tlc  # noqa: E402
from harness.rx_cfg import normalize, tla_view  # noqa: E402

REPO = os.environ.get("VERIF_REPO", "/repo")


def tree_switches() -> Dict[str, bool]:
    with open(os.path.join(ROOT, "spec", "tree_switches.json")) as f:
        return json.load(f)["receiver"]


# ---------------------------------------------------------------- drive
def _drive_one(scn: Dict[str, Any]) -> Dict[str, Any]:
    from harness import rx_driver
    try:
        ev = rx_driver.run(scn)
        return {"cfg": tla_view(normalize(scn["cfg"])), "ev": ev}
    except BaseException as exc:  # noqa: BLE001
        import traceback
        return {"error": "".join(traceback.format_exception(exc))[-2000:]}


def _init_worker() -> None:
    if REPO not in sys.path:
        sys.path.insert(0, REPO)
    import logging
    logging.disable(logging.CRITICAL)


def drive(scns: List[Dict[str, Any]], procs: int = 16) -> List[Dict[str, Any]]:
    if not scns:
        return []
    if REPO not in sys.path:
        sys.path.insert(0, REPO)
    if os.environ.get("VERIF_INLINE") == "1":      # coverage measurement (tools/coverage_report.sh): no worker processes
        _init_worker()
        res = [_drive_one(s) for s in scns]
    else:
        ctx = mp.get_context("fork")
        with ctx.Pool(min(procs, max(1, len(scns) // 20 + 1)), initializer=_init_worker) as pool:
            res = pool.map(_drive_one, scns, chunksize=max(1, len(scns) // (procs * 8)))
    for r, s in zip(res, scns):
        if "error" in r:
            raise RuntimeError("driver failed on scenario %s:\n%s" % (json.dumps(s)[:500], r["error"]))
    return res


# ---------------------------------------------------------------- observe
def observe(traces: List[Dict[str, Any]], shards: int = 8) -> List[Dict[str, int]]:
    """Per trace: {clause: first event index at which it is false}."""
    if not traces:
        return []
    scratch = tlc.scratch_dir("obs")
    try:
        n = len(traces)
        shards = max(1, min(shards, n // 50 + 1))
        bounds = [(i * n // shards, (i + 1) * n // shards) for i in range(shards)]
        jobs = []
        for si, (a, b) in enumerate(bounds):
            path = os.path.join(scratch, f"batch{si}.json")
            with open(path, "w") as f:
                json.dump(traces[a:b], f)
            jobs.append((path, a, b))
        ctx = mp.get_context("fork")
        with ctx.Pool(len(jobs)) as pool:
            outs = pool.map(_observe_shard, jobs)
        verdicts: List[Dict[str, int]] = [{} for _ in range(n)]
        for (path, a, b), (out, rc) in zip(jobs, outs):
            got = tlc.extract_printed(out, "VERDICT")
            seen = set()
            for v in got:
                t = v[1]
                seen.add(t)
                verdicts[a + t - 1] = {name: idx for name, idx in v[2]["__set__"]}
            if len(seen) != b - a:
                raise tlc.TLCError("observer did not return a verdict for every trace:\n" + out[-3000:])
        return verdicts
    finally:
        shutil.rmtree(scratch, ignore_errors=True)


def _observe_shard(job: Tuple[str, int, int]) -> Tuple[str, int]:
    r = tlc.run_tlc("ObsReceiver", cfg_file="ObsReceiver.cfg", workers=2, env={"TRACE_FILE": job[0]}, heap="3g")
    return r["out"], r["rc"]


# ---------------------------------------------------------------- conform
def conform(traces: List[Dict[str, Any]], shards: int = 12, switches: Optional[Dict[str, bool]] = None) -> List[Tuple[int, int]]:
    """Per trace: (highest matched position, length+1); accepted iff equal."""
    if not traces:
        return []
    sw = switches or tree_switches()
    scratch = tlc.scratch_dir("conf")
    try:
        n = len(traces)
        shards = max(1, min(shards, n // 10 + 1))
        bounds = [(i * n // shards, (i + 1) * n // shards) for i in range(shards)]
        jobs = []
        for si, (a, b) in enumerate(bounds):
            path = os.path.join(scratch, f"batch{si}.json")
            with open(path, "w") as f:
                json.dump(traces[a:b], f)
            jobs.append((path, a, b, sw))
        ctx = mp.get_context("fork")
        with ctx.Pool(len(jobs)) as pool:
            outs = pool.map(_conform_shard, jobs)
        res: List[Tuple[int, int]] = [(0, 0)] * n
        for (path, a, b, _), out in zip(jobs, outs):
            got = tlc.extract_printed(out, "MAXL")
            if len(got) != b - a:
                raise tlc.TLCError("conformance run failed:\n" + out[-3000:])
            for v in got:
                res[a + v[1] - 1] = (v[2], v[3])
        return res
    finally:
        shutil.rmtree(scratch, ignore_errors=True)


def _b(x: bool) -> str:
    return "TRUE" if x else "FALSE"


def _conform_shard(job: Tuple[str, int, int, Dict[str, bool]]) -> str:
    sw = job[3]
    cfg = f"""SPECIFICATION TraceSpec
CONSTANTS
  LookaheadAfterLimit = {_b(sw['LookaheadAfterLimit'])}
  CtxDictShared = {_b(sw['CtxDictShared'])}
  Cfgs = {{}}
  MaxNow = 100000
  Outcomes = {{"ret", "exc", "base", "nores", "cerr", "falsy", "sysexit"}}
  AllowedViol = {{}}
INVARIANT Progress
POSTCONDITION Done
CHECK_DEADLOCK FALSE
"""
    r = tlc.run_tlc("TraceReceiver", cfg_text=cfg, workers=1, env={"TRACE_FILE": job[0]}, heap="3g")
    return r["out"]


# ---------------------------------------------------------------- mc
def mc(cfgs: List[Dict[str, Any]], outcomes: List[str], max_now: int, allowed: List[str],
       switches: Optional[Dict[str, bool]] = None, invariants: Optional[List[str]] = None,
       workers: int = 16, timeout: int = 3000, properties: Optional[List[str]] = None,
       fair: bool = False, coverage: bool = False) -> Dict[str, Any]:
    sw = switches or tree_switches()
    scratch = tlc.scratch_dir("mc")
    try:
        path = os.path.join(scratch, "cfgs.json")
        with open(path, "w") as f:
            json.dump([tla_view(normalize(c)) for c in cfgs], f)
        inv = invariants or ["NoViolation", "SlotConservation", "QueueBound", "TypeOK", "NoStuckMessage", "PromptReturn", "TimeoutReturn"]
        text = f"""SPECIFICATION {'FairSpec' if fair else 'Spec'}
CONSTANTS
  LookaheadAfterLimit = {_b(sw['LookaheadAfterLimit'])}
  CtxDictShared = {_b(sw['CtxDictShared'])}
  Cfgs <- JsonCfgs
  MaxNow = {max_now}
  Outcomes = {{{', '.join('"%s"' % o for o in outcomes)}}}
  AllowedViol = {{{', '.join('"%s"' % a for a in allowed)}}}
""" + "".join(f"INVARIANT {i}\n" for i in inv) + "".join(f"PROPERTY {p}\n" for p in (properties or [])) + "CHECK_DEADLOCK FALSE\n"
        extra = ["-coverage", "1"] if coverage else []
        r = tlc.run_tlc("MC_Rx", cfg_text=text, workers=workers, env={"CFG_FILE": path}, timeout=timeout, extra=extra)
        r["n_cfgs"] = len(cfgs)
        return r
    finally:
        shutil.rmtree(scratch, ignore_errors=True)


# ---------------------------------------------------------------- simulate
def simulate(cfgs: List[Dict[str, Any]], num: int, depth: int, seed: int, outcomes: List[str], max_now: int,
             switches: Optional[Dict[str, bool]] = None) -> List[Dict[str, Any]]:
    """TLC -simulate behaviours of the model -> scenarios (environment moves)."""
    sw = switches or tree_switches()
    scratch = tlc.scratch_dir("sim")
    try:
        path = os.path.join(scratch, "cfgs.json")
        ncfgs = [normalize(c) for c in cfgs]
        with open(path, "w") as f:
            json.dump([tla_view(c) for c in ncfgs], f)
        text = f"""INIT SimInit
NEXT SimNext
CONSTANTS
  LookaheadAfterLimit = {_b(sw['LookaheadAfterLimit'])}
  CtxDictShared = {_b(sw['CtxDictShared'])}
  Cfgs = {{}}
  MaxNow = {max_now}
  Outcomes = {{{', '.join('"%s"' % o for o in outcomes)}}}
  AllowedViol = {{"any"}}
  SimDepth = {depth}
INVARIANT Dump
CHECK_DEADLOCK FALSE
"""
        r = tlc.run_tlc("Sim_Rx", cfg_text=text, workers=1, env={"CFG_FILE": path}, timeout=1200,
                        extra=["-simulate", f"num={num}", "-depth", str(depth), "-seed", str(seed)])
        scns = []
        for v in tlc.extract_printed(r["out"], "SCN"):
            cid, elog = v[1], v[2]
            steps: List[Any] = []
            for e in elog:
                if e["n"] > 0:
                    steps.append(["step", e["n"]])
                if e["e"] == "arrive":
                    steps.append(["arrive_", e["x"]])
                elif e["e"] == "stop":
                    steps.append(["stop_"])
                elif e["e"] == "fin":
                    steps.append(["fin_", e["m"], e["s"]])
                elif e["e"] == "gate":
                    steps.append(["gate_", [e["s"], e["m"], e["x"]]])
                elif e["e"] == "adv":
                    steps.append(["advto", e["t"]])
            scns.append({"cfg": cfgs[cid - 1], "steps": steps, "family": "tlc_simulate"})
        if not scns:
            raise tlc.TLCError("simulation produced no behaviours:\n" + r["out"][-2000:])
        return scns
    finally:
        shutil.rmtree(scratch, ignore_errors=True)

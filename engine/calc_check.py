"""Checks C13 (cron due iff expression matches) and C14 (one-shot delay relation)."""
from __future__ import annotations

import datetime as _dt
import json
import os
import random
import sys
import time
from typing import Any, Dict, List, Tuple

ROOT = os.path.dirname(os.path.dirname(os.path.abspath(__file__)))
sys.path.insert(0, ROOT)
from engine import common, mbt, tlc  # noqa: E402

FIELDS = [(0, 59), (0, 23), (1, 31), (1, 12), (0, 6)]


def _item(rng: random.Random, lo: int, hi: int) -> Dict[str, Any]:
    r = rng.random()
    if r < 0.45:
        return {"k": "num", "a": rng.choice([lo, hi, rng.randint(lo, hi)]), "b": 0, "s": 1}
    a = rng.randint(lo, hi)
    b = rng.randint(a, hi)
    s = 1 if r < 0.75 else rng.randint(2, max(2, (hi - lo) // 2))
    return {"k": "range", "a": a, "b": b, "s": s}


def _field(rng: random.Random, idx: int, star_p: float) -> List[Dict[str, Any]]:
    lo, hi = FIELDS[idx]
    r = rng.random()
    if r < star_p:
        return [{"k": "star", "a": 0, "b": 0, "s": 1}]
    if r < star_p + 0.15:
        return [{"k": "step", "a": 0, "b": 0, "s": rng.choice([2, 3, 5, 7, 10, 15, 30]) if hi > 12 else rng.randint(2, 4)}]
    items = [_item(rng, lo, hi) for _ in range(rng.randint(1, 3))]
    if rng.random() < 0.1:
        items.append({"k": "step", "a": 0, "b": 0, "s": rng.randint(2, 6)})
    return items


def rand_expr(rng: random.Random, wide: bool) -> List[List[Dict[str, Any]]]:
    sp = 0.75 if wide else 0.4
    return [_field(rng, 0, 0.3 if wide else 0.2), _field(rng, 1, sp), _field(rng, 2, sp), _field(rng, 3, 0.8 if wide else 0.5),
            _field(rng, 4, sp)]


def rand_offset(rng: random.Random, nz: int) -> Dict[str, Any]:
    r = rng.random()
    if r < 0.25:
        return {"k": "none", "sec": 0, "z": 0}
    if r < 0.55:
        grid = [0, 1800, 2700, 3600, 19800, 20700, 45900, -12600, 93600, -93600, 86400, -86400, 59, -1, 60]
        return {"k": "delta", "sec": rng.choice(grid + [rng.randrange(-93600, 93601, 900)]), "z": 0}
    return {"k": "zone", "sec": 0, "z": rng.randint(1, nz)}


def special_days(tables: List[List[Dict[str, int]]]) -> List[int]:
    days = set()
    for tab in tables:
        for tr in tab[1:]:
            days.update([tr["d"] - 1, tr["d"], tr["d"] + 1])
    for y in (2016, 2023, 2024, 2025, 2028, 2031):
        for (m, d) in ((1, 1), (2, 28), (3, 1), (12, 31), (4, 30), (5, 31)):
            days.add((_dt.date(y, m, d) - _dt.date(1970, 1, 1)).days)
        if y % 4 == 0:
            days.add((_dt.date(y, 2, 29) - _dt.date(1970, 1, 1)).days)
    return sorted(x for x in days if 16436 <= x <= 24100)      # 2015 .. 2035


def gen_cron(seed: int, n_day_traces: int, n_random: int) -> List[Dict[str, Any]]:
    sys.path.insert(0, mbt.REPO)
    from harness import calc_driver as cd
    rng = random.Random(("cron", seed).__repr__())
    tables = [cd.zone_table(z) for z in cd.ZONES]
    days = special_days(tables)
    scns = []
    skipped = 0
    for _ in range(n_day_traces):        # minute-exhaustive over one day, one expression, one offset
        f = rand_expr(rng, wide=True)
        o = rand_offset(rng, len(cd.ZONES))
        if o["k"] == "zone" and rng.random() < 0.8:
            trs = tables[o["z"] - 1][1:]
            day = rng.choice(trs)["d"] + rng.choice([-1, 0, 0, 1]) if trs else rng.choice(days)
        else:
            day = rng.choice(days)
        calls = []
        for minute in range(1440):
            sod = minute * 60 + rng.choice([0, 59, rng.randint(0, 59)])
            if o["k"] == "zone" and not cd.pytz_agrees(cd.ZONES[o["z"] - 1], day, sod):
                skipped += 1
                continue
            calls.append({"e": "cron", "f": f, "o": o, "day": day, "sod": sod, "us": rng.choice([0, 999999, rng.randint(0, 999999)]),
                          "via_spec": len(scns) % 3 == 0})
        scns.append({"calls": calls, "family": "cron_day", "tz": [None, "JST-9", "EST5EDT", "IST-5:30"][len(scns) % 4]})
    calls = []
    for _ in range(n_random):            # random instants 2015-2035, narrow expressions (so that matches happen)
        f = rand_expr(rng, wide=rng.random() < 0.6)
        o = rand_offset(rng, len(cd.ZONES))
        day = rng.randint(16436, 24100)
        sod = rng.randint(0, 86399)
        if o["k"] == "zone" and not cd.pytz_agrees(cd.ZONES[o["z"] - 1], day, sod):
            skipped += 1
            continue
        calls.append({"e": "cron", "f": f, "o": o, "day": day, "sod": sod, "us": rng.randint(0, 999999), "via_spec": rng.random() < 0.3})
    # fields that are the integer 0 / single numbers through CronSpec (minute 0, hour 0, Sunday = 0)
    for _ in range(max(200, n_random // 20)):
        f = [[{"k": "num", "a": rng.choice([0, 0, 30]), "b": 0, "s": 1}], [{"k": "num", "a": rng.choice([0, 0, 12]), "b": 0, "s": 1}],
             [{"k": "star", "a": 0, "b": 0, "s": 1}], [{"k": "star", "a": 0, "b": 0, "s": 1}],
             [rng.choice([{"k": "star", "a": 0, "b": 0, "s": 1}, {"k": "num", "a": 0, "b": 0, "s": 1}])]]
        o = rand_offset(rng, len(cd.ZONES))
        day = rng.randint(16436, 24100)
        sod = rng.choice([0, 1800, 43200, 45000, rng.randint(0, 86399)])
        if o["k"] == "zone" and not cd.pytz_agrees(cd.ZONES[o["z"] - 1], day, sod):
            continue
        calls.append({"e": "cron", "f": f, "o": o, "day": day, "sod": sod, "us": 0, "via_spec": True})
    for i, c in enumerate(calls):
        if i % 9 == 4:
            c["also_time"] = (-86400, -1, 0, 20, 90, 86400)[(i // 9) % 6]       # cron entries that also carry a time (past / near / far)
    for i in range(0, len(calls), 1000):
        scns.append({"calls": calls[i:i + 1000], "family": "cron_random", "tz": [None, "JST-9", "EST5EDT"][(i // 1000) % 3]})
    # one expression at one instant under every offset, back to back in one process: the answer depends on the offset only
    sweep = []
    for _ in range(max(40, n_random // 200)):
        f = rand_expr(rng, wide=False)
        day = rng.randint(16436, 24100)
        sod = rng.randint(0, 86399)
        offs = [{"k": "none"}] + [{"k": "zone", "z": z} for z in range(1, len(cd.ZONES) + 1)] + \
               [{"k": "delta", "sec": ss} for ss in (-43200, -12600, 3600, 20700, 50400)]
        rng.shuffle(offs)
        for o in offs:
            o2 = {"k": o["k"], "z": o.get("z", 0), "sec": o.get("sec", 0)}
            if o2["k"] == "zone" and not cd.pytz_agrees(cd.ZONES[o2["z"] - 1], day, sod):
                continue
            sweep.append({"e": "cron", "f": f, "o": o2, "day": day, "sod": sod, "us": 0, "via_spec": False})
    for i in range(0, len(sweep), 1000):
        scns.append({"calls": sweep[i:i + 1000], "family": "cron_zone_sweep", "tz": None})
    scns[0]["skipped_tz_disagreement"] = skipped
    return scns


def gen_time(seed: int, n_random: int) -> List[Dict[str, Any]]:
    sys.path.insert(0, mbt.REPO)
    from harness import calc_driver as cd
    rng = random.Random(("time", seed).__repr__())
    spells: List[Any] = [["naive"], ["utc"], ["fixed", 330], ["fixed", -570], ["fixed", 765], ["pytz", "Asia/Kathmandu"],
                         ["zi", "Australia/Lord_Howe"], ["zi", "America/St_Johns"], ["pytz", "Europe/Berlin"], ["zi", "Pacific/Apia"]]
    calls = []
    # boundary lattice
    base_days = [19000, 19782, 19813, 20088]     # incl. a DST day of Europe/Berlin (2024-03-31 = 19813)
    for day in base_days:
        for hs in (0, 3600 * 1 - 60, 3600 * 23 + 59 * 60):
            for sec in (0, 1, 29, 58, 59):
                for us in (0, 1, 499999, 999999):
                    now = {"d": day, "s": hs + sec, "u": us}
                    nowdt = cd.inst_to_dt(day, hs + sec, us)
                    horizon = (nowdt + _dt.timedelta(minutes=1)).replace(second=1, microsecond=0)
                    deltas = [_dt.timedelta(days=-2), _dt.timedelta(seconds=-1), _dt.timedelta(microseconds=-1), _dt.timedelta(0),
                              _dt.timedelta(microseconds=1), _dt.timedelta(seconds=1, microseconds=-1), _dt.timedelta(seconds=1),
                              _dt.timedelta(seconds=1, microseconds=1), _dt.timedelta(seconds=30), _dt.timedelta(days=2)]
                    targets = [nowdt + dl for dl in deltas] + [horizon + _dt.timedelta(microseconds=x) for x in (-1, 0, 1)] + \
                              [horizon - _dt.timedelta(seconds=1), horizon - _dt.timedelta(seconds=1, microseconds=1)]
                    for t in targets:
                        calls.append({"e": "time", "now": now, "T": cd.dt_to_inst(t), "spell": spells[len(calls) % len(spells)]})
    # now / T straddling the repeated hour of every backward zone transition, spelled in that zone (zoneinfo and pytz)
    for zname in ("Europe/Berlin", "America/New_York", "Australia/Lord_Howe", "America/St_Johns", "Europe/London", "America/Sao_Paulo"):
        tab = cd.zone_table(zname)
        backs = [tab[i] for i in range(1, len(tab)) if tab[i]["off"] < tab[i - 1]["off"]]
        for tr in backs[:: max(1, len(backs) // 8)]:
            t0 = cd.inst_to_dt(tr["d"], tr["s"], 0)
            for bx, ay in ((5, 5), (50, 20), (1, 59), (30, 45), (59, 1), (20, 0)):
                for extra_us in (0, 400000):
                    nowdt = t0 - _dt.timedelta(minutes=bx) + _dt.timedelta(microseconds=extra_us)
                    for tdt in (t0 + _dt.timedelta(minutes=ay), nowdt + _dt.timedelta(seconds=20), nowdt + _dt.timedelta(seconds=45, microseconds=1)):
                        for sp in (["zi", zname], ["pytz", zname]):
                            calls.append({"e": "time", "now": cd.dt_to_inst(nowdt), "T": cd.dt_to_inst(tdt), "spell": sp})
    # the two instants that share one wall-clock reading in a repeated hour (fold = 0 / fold = 1), evaluated back to back by
    # the same process at the same `now`, in both orders: one is due within the minute, the other an hour (30 min) later
    for zname in ("Europe/Berlin", "America/New_York", "Australia/Lord_Howe", "Europe/London"):
        tab = cd.zone_table(zname)
        for i in range(1, len(tab)):
            shift = tab[i - 1]["off"] - tab[i]["off"]
            if shift <= 0 or i % 3:
                continue
            t0 = cd.inst_to_dt(tab[i]["d"], tab[i]["s"], 0)                  # instant of the backward transition
            for back_min in (10, 25):
                first = t0 - _dt.timedelta(minutes=back_min)                    # first occurrence of the wall-clock reading
                second = first + _dt.timedelta(seconds=shift)                   # the same reading, second time round
                for nowdt in (first - _dt.timedelta(seconds=20), second - _dt.timedelta(seconds=20)):
                    for pair in ((first, second), (second, first)):
                        for tdt in pair:
                            calls.append({"e": "time", "now": cd.dt_to_inst(nowdt), "T": cd.dt_to_inst(tdt), "spell": ["zi", zname]})
    for _ in range(n_random):
        day = rng.randint(16436, 24100)
        now = {"d": day, "s": rng.randint(0, 86399), "u": rng.choice([0, rng.randint(0, 999999)])}
        nowdt = cd.inst_to_dt(now["d"], now["s"], now["u"])
        r = rng.random()
        if r < 0.7:
            dl = _dt.timedelta(seconds=rng.randint(-5, 125), microseconds=rng.choice([0, 0, rng.randint(0, 999999)]))
        else:
            dl = _dt.timedelta(seconds=rng.randint(-172800, 172800), microseconds=rng.randint(0, 999999))
        calls.append({"e": "time", "now": now, "T": cd.dt_to_inst(nowdt + dl), "spell": rng.choice(spells)})
    # a one-shot schedule may carry a cron_offset (schedule templates): it must not change anything
    for i, c in enumerate(calls):
        if i % 7 == 0:
            c["off"] = rand_offset(rng, len(cd.ZONES))
            if c["off"]["k"] == "none":
                c.pop("off")
    return [{"calls": calls[i:i + 1500], "family": "time_lattice" if i == 0 else "time", "tz": [None, "JST-9", "EST5EDT", "IST-5:30"][(i // 1500) % 4]}
            for i in range(0, len(calls), 1500)]


def _drive_one(scn: Dict[str, Any]) -> Dict[str, Any]:
    from harness import calc_driver
    return calc_driver.run(scn)


def run_check(prop: str, tier: str) -> int:
    rep = common.Reporter(prop)
    t0 = time.time()
    seed = common.seed()
    q = tier == "quick"
    # ---- the calendar arithmetic of the spec itself, exhaustively over 1970-2100
    text = "SPECIFICATION Spec\nCONSTANTS\n  D0 = 0\n  D1 = 47500\nINVARIANT CalOK\nCHECK_DEADLOCK FALSE\n"
    r = tlc.run_tlc("MC_Cron", cfg_text=text, workers=4, timeout=900)
    if not r.get("ok_finished") or "distinct" not in r:
        common.die_machinery(prop, "calendar self-check failed:\n" + r["out"][-2000:])
    states, transitions = r["distinct"], r["generated"]
    if prop == "C13":
        scns = gen_cron(seed, 24 if q else 300, 12000 if q else 250000)
    else:
        scns = gen_time(seed, 20000 if q else 400000)
    traces = mbt.drive("engine.calc_check", "_drive_one", scns)
    verdicts = mbt.observe(traces, "ObsCalc", shards=12, per_shard_min=1)
    viol_n = 0
    n_calls = sum(len(t["ev"]) for t in traces)
    n_due = sum(1 for t in traces for e in t["ev"] if e["res"] == 0)
    n_sched = sum(1 for t in traces for e in t["ev"] if e["res"] > 0)
    for i, v in enumerate(verdicts):
        for clause, idx in v.items():
            if not clause.startswith(prop + "_"):
                continue
            viol_n += 1
            if viol_n <= 5:
                call = scns[i]["calls"][idx - 1] if idx - 1 < len(scns[i]["calls"]) else None
                path = common.save_replay(prop, {"kind": "calc", "property": prop, "clause": clause, "scenario": {"calls": [call]},
                                                 "observed": traces[i]["ev"][idx - 1]["res"]})
                rep.violation(path, f"clause {clause}: get_task_delay returned {traces[i]['ev'][idx - 1]['res']} for {json.dumps(call)[:300]}")
    # ---- the same decision taken inside the running scheduler loop (slow sources: the instant of consideration is after the listing)
    from engine import sch_check
    loop_map = {"C13": ("C15_CronMissed", "C15_CronExtra"), "C14": ("C15_Late", "C15_NotEarly", "C15_Unexpected", "C15_Missing")}[prop]
    lscns = sch_check.gen_latency(seed, 150 if q else 2000) + list(sch_check.gen_sweep(full=False))[:: (4 if q else 1)] + \
        sch_check.gen_random(seed + 5, 250 if q else 3000)      # incl. stop at the end, other clocks, re-used ids, hourly schedules
    for i, sc in enumerate(lscns):
        sc["cfg"].setdefault("stop_at_end", i % 2 == 1)
    ltraces = mbt.drive("engine.sch_check", "_drive_one", lscns)
    lverd = mbt.observe(ltraces, "ObsSched", shards=8)
    for i, v in enumerate(lverd):
        for clause, idx in v.items():
            if clause not in loop_map:
                continue
            viol_n += 1
            if viol_n <= 5:
                path = common.save_replay(prop, {"kind": "sched", "property": prop, "clause": clause, "event_index": idx,
                                                 "scenario": {"cfg": lscns[i]["cfg"], "steps": lscns[i].get("steps", [])}})
                rep.violation(path, f"inside the scheduler loop: clause {clause} false after event {idx} (family {lscns[i].get('family')})")
    distinct = len({json.dumps(e, sort_keys=True) for t in traces for e in t["ev"]})
    samples = [{"call": scns[i]["calls"][j], "result": traces[i]["ev"][j]["res"]} for i, j in ((0, 0), (len(scns) - 1, 0), (len(scns) // 2, 1))
               if j < len(scns[i]["calls"])]
    coverage = {
        "states": states, "transitions": transitions, "traces_validated_against_impl": len(traces), "samples": samples,
        "evaluations": n_calls, "distinct_nontrivial": (n_due if prop == "C13" else n_sched),
        "rule": ("C13: each evaluation = one call of the real get_task_delay(ScheduledTask(cron, cron_offset)) under a controlled clock, judged by "
                 "Cron.tla!Due; non-trivial = the schedule was due (expression matched)" if prop == "C13" else
                 "C14: each evaluation = one call of the real get_task_delay(ScheduledTask(time=T)) under a controlled clock, judged by "
                 "Cron.tla!DelayOK; non-trivial = a positive delay was computed (T inside the horizon)"),
        "distinct_calls": distinct, "due_or_immediate": n_due, "positive_delay": n_sched,
        "skipped_tz_disagreement": scns[0].get("skipped_tz_disagreement", 0),
        "scheduler_loop_runs": len(ltraces),
        "checker_cmd": "tlc ObsCalc (verdict per recorded call) / MC_Cron (calendar arithmetic self-check 1970-2100, delay relation totality)",
        "exhaustive": False,
    }
    common.write_evidence(prop, tier, coverage, [
        "oracle = spec/Cron.tla (integer calendar, cron matcher, zone tables generated from the SYSTEM tz database via zoneinfo); the code under test uses pycron and pytz's bundled database",
        "C13 domain: numeric five-field expressions (lists, a-b, a-b/s, */s; no names, no 7 for Sunday, ranges with a<=b); instants where zoneinfo and pytz agree on the zone offset",
        "the clock seen by taskiq.cli.scheduler.run is controlled (module attribute datetime replaced)",
    ], time.time() - t0, viol_n)
    rep.info(f"{n_calls} real calls judged ({n_due} due/immediate, {n_sched} positive delays), {viol_n} violations, {time.time() - t0:.0f}s")
    return rep.exit_code()


def replay(prop: str, path: str) -> int:
    with open(path) as f:
        doc = json.load(f)
    if doc.get("kind") == "sched":
        from engine import sch_check
        traces = mbt.drive("engine.sch_check", "_drive_one", [doc["scenario"]])
        v = mbt.observe(traces, "ObsSched", shards=1)[0]
        print("clauses false:", v)
        if doc["clause"] in v:
            print(f"VIOLATION property={prop} replay={path}")
            return 1
        return 0
    traces = mbt.drive("engine.calc_check", "_drive_one", [doc["scenario"]])
    v = mbt.observe(traces, "ObsCalc", shards=1, per_shard_min=1)[0]
    print("result:", traces[0]["ev"][0]["res"], "clauses false:", v)
    if any(c.startswith(prop + "_") for c in v):
        print(f"VIOLATION property={prop} replay={path}")
        return 1
    return 0

"""./check entry point."""
from __future__ import annotations

import argparse
import os
import sys

ROOT = os.path.dirname(os.path.dirname(os.path.abspath(__file__)))
sys.path.insert(0, ROOT)

RX_PROPS = {"C01", "C02", "C03", "C04", "C05", "C06", "C07", "C10", "C12"}


def main() -> int:
    ap = argparse.ArgumentParser()
    ap.add_argument("prop")
    ap.add_argument("--tier", default=os.environ.get("VERIF_TIER", "quick"), choices=["quick", "thorough"])
    ap.add_argument("--replay", default=None)
    a = ap.parse_args()
    from engine import tlc
    try:
        if a.prop == "C10":
            from engine import cl_check, rx_check
            if a.replay:
                import json
                kind = json.load(open(a.replay)).get("kind")
                return (rx_check if kind == "rx" else cl_check).replay("C10", a.replay)
            rc1 = rx_check.run_check("C10", a.tier, write=False)
            rc2 = cl_check.run_check("C10", a.tier, rx_part=dict(rx_check.LAST))
            return max(rc1, rc2)
        if a.prop in RX_PROPS:
            from engine import rx_check
            if a.replay:
                return rx_check.replay(a.prop, a.replay)
            return rx_check.run_check(a.prop, a.tier)
        if a.prop in ("C19", "C20"):
            from engine import exc_check
            if a.replay:
                return exc_check.replay(a.prop, a.replay)
            return exc_check.run_check(a.prop, a.tier)
        if a.prop == "C08":
            from engine import par_check
            if a.replay:
                return par_check.replay(a.prop, a.replay)
            return par_check.run_check(a.prop, a.tier)
        if a.prop in ("C17", "C18"):
            from engine import pm_check
            if a.replay:
                return pm_check.replay(a.prop, a.replay)
            return pm_check.run_check(a.prop, a.tier)
        if a.prop == "C15":
            from engine import sch_check
            if a.replay:
                return sch_check.replay(a.prop, a.replay)
            return sch_check.run_check(a.prop, a.tier)
        if a.prop == "C16":
            from engine import common, lbl_check, sch_check
            if a.replay:
                import json
                kind = json.load(open(a.replay)).get("kind")
                return lbl_check.replay(a.replay) if kind == "label" else sch_check.replay("C16", a.replay)
            rep = common.Reporter("C16")
            part = lbl_check.run_part(a.tier, rep)
            rc = sch_check.run_check("C16", a.tier, extra=part)
            return max(rc, rep.exit_code())
        if a.prop in ("C13", "C14"):
            from engine import calc_check
            if a.replay:
                return calc_check.replay(a.prop, a.replay)
            return calc_check.run_check(a.prop, a.tier)
        if a.prop in ("C09", "C11"):
            from engine import cl_check
            if a.replay:
                return cl_check.replay(a.prop, a.replay)
            return cl_check.run_check(a.prop, a.tier)
        print(f"unknown property {a.prop}", file=sys.stderr)
        return 2
    except tlc.TLCError as exc:
        print(f"MACHINERY-FAILURE property={a.prop}: {exc}", file=sys.stderr)
        return 2


if __name__ == "__main__":
    sys.exit(main())

"""Shared check plumbing: known findings, replays, evidence, exit protocol."""
from __future__ import annotations

import hashlib
import json
import os
import sys
import time
from typing import Any, Dict, List, Optional

ROOT = os.path.dirname(os.path.dirname(os.path.abspath(__file__)))
EVIDENCE_DIR = os.path.join(ROOT, "evidence")
REPLAY_DIR = os.path.join(ROOT, "replays")


def seed() -> int:
    try:
        return int(os.environ.get("VERIF_SEED", "0"))
    except ValueError:
        return 0


def known_findings() -> List[Dict[str, Any]]:
    with open(os.path.join(ROOT, "known_findings.json")) as f:
        return json.load(f)["findings"]


def open_findings(prop: str) -> List[Dict[str, Any]]:
    return [k for k in known_findings() if k["property"] == prop and k["status"] == "open"]


def save_replay(prop: str, payload: Dict[str, Any]) -> str:
    os.makedirs(REPLAY_DIR, exist_ok=True)
    blob = json.dumps(payload, sort_keys=True)
    h = hashlib.sha1(blob.encode()).hexdigest()[:12]
    path = os.path.join(REPLAY_DIR, f"{prop}-{h}.json")
    with open(path, "w") as f:
        f.write(blob)
    return path


def write_evidence(prop: str, tier: str, coverage: Dict[str, Any], assumptions: List[str], wall_s: float,
                   violations: int, level: str = "model_checking", extra: Optional[Dict[str, Any]] = None) -> None:
    if os.environ.get("VERIF_REPO", "/repo") != "/repo":
        return            # a run against a scratch worktree (seeded change, refactor): evidence describes /repo only
    os.makedirs(EVIDENCE_DIR, exist_ok=True)
    doc: Dict[str, Any] = {
        "property_id": prop, "tier": tier, "seed": seed(), "level": level, "coverage": coverage,
        "assumptions": assumptions, "wall_s": round(wall_s, 2), "violations": violations,
    }
    if extra:
        doc.update(extra)
    tmp = os.path.join(EVIDENCE_DIR, f".{prop}.json.tmp")
    with open(tmp, "w") as f:
        json.dump(doc, f, indent=1, sort_keys=True)
    os.replace(tmp, os.path.join(EVIDENCE_DIR, f"{prop}.json"))


class Reporter:
    """Collects output lines; decides the exit status."""

    def __init__(self, prop: str) -> None:
        self.prop = prop
        self.violations: List[str] = []
        self.known: Dict[str, str] = {}
        self.divergences = 0
        self.t0 = time.time()

    def violation(self, replay_path: str, what: str) -> None:
        line = f"VIOLATION property={self.prop} replay={replay_path}"
        if line not in self.violations:
            self.violations.append(line)
            print(line, flush=True)
            print(f"  detail: {what}", flush=True)

    def known_finding(self, kf_id: str, what: str) -> None:
        if kf_id not in self.known:
            self.known[kf_id] = what
            print(f"KNOWN-FINDING: property={self.prop} {kf_id} {what}", flush=True)

    def divergence(self, what: str) -> None:
        self.divergences += 1
        if self.divergences <= 5:
            print(f"DIVERGENCE property={self.prop} {what}", flush=True)

    def info(self, msg: str) -> None:
        print(f"[{self.prop}] {msg}", flush=True)

    def exit_code(self) -> int:
        return 1 if self.violations else 0


def die_machinery(prop: str, msg: str) -> None:
    print(f"MACHINERY-FAILURE property={prop}: {msg}", file=sys.stderr, flush=True)
    sys.exit(2)

"""Parametric part of C03 / C04: spec/FlowAbs.tla.

1. apalache_proof(): IndInv of FlowAbs is inductive and implies Limit / Bound / ExactlyN for ALL A >= 1, P, N (Apalache).
2. mc_small(): the same invariants on small instances with TLC (guards against an Apalache-only artefact).
3. conform_flow(): traces recorded from the real Receiver, projected on take / cb_b / cb_e / stop / ret, are behaviours of
   FlowAbs (TraceFlow.tla; the un-logged semaphore / queue statements are inferred by TLC).
"""
from __future__ import annotations

import json
import multiprocessing as mp
import os
import random
import shutil
import subprocess
import sys
import time
from typing import Any, Dict, List, Tuple

ROOT = os.path.dirname(os.path.dirname(os.path.abspath(__file__)))
sys.path.insert(0, ROOT)

from engine import rx_gen, tlc  # noqa: E402

SPEC = os.path.join(ROOT, "spec")
KEEP = ("take", "cb_b", "cb_e", "stop", "ret")


# ------------------------------------------------------------------ Apalache
def apalache_proof(timeout: int = 900) -> Dict[str, Any]:
    """Three obligations; each must end with 'EXITCODE: OK'."""
    scratch = tlc.scratch_dir("apa")
    res: Dict[str, Any] = {"obligations": []}
    try:
        shutil.copy(os.path.join(SPEC, "FlowAbs.tla"), scratch)
        obligations = [
            ("Init => IndInv", ["--init=Init", "--inv=IndInv", "--length=0"]),
            ("IndInv /\\ Next => IndInv'", ["--init=IndInit", "--inv=IndInv", "--length=1"]),
            ("IndInv => Limit /\\ Bound /\\ ExactlyN", ["--init=IndInit", "--inv=Safe", "--length=0"]),
        ]
        t0 = time.time()
        for i, (name, args) in enumerate(obligations):
            cmd = ["apalache-mc", "check", "--cinit=ConstInit", f"--out-dir={scratch}/out{i}"] + args + ["FlowAbs.tla"]
            try:
                p = subprocess.run(cmd, cwd=scratch, capture_output=True, text=True, timeout=timeout,
                                   env=dict(os.environ, TMPDIR=scratch, JVM_ARGS="-Xmx4g -Djava.io.tmpdir=" + scratch))
                out = p.stdout + p.stderr
            except subprocess.TimeoutExpired:
                out = "TIMEOUT"
            ok = "EXITCODE: OK" in out and "The outcome is: NoError" in out
            res["obligations"].append({"name": name, "ok": ok, "tail": out[-600:] if not ok else ""})
        res["ok"] = all(o["ok"] for o in res["obligations"])
        res["wall_s"] = round(time.time() - t0, 1)
        return res
    finally:
        shutil.rmtree(scratch, ignore_errors=True)


def mc_small(instances: List[Tuple[int, int, int]], slack: int = 3) -> Dict[str, Any]:
    states = 0
    for (A, P, N) in instances:
        cfg = (f"SPECIFICATION Spec\nCONSTANTS\n A = {A}\n P = {P}\n N = {N}\n MaxTaken = {A + P + 1 + slack}\nINVARIANT IndInv\nINVARIANT Safe\n"
               "CONSTRAINT Constraint\nCHECK_DEADLOCK FALSE\n")
        r = tlc.run_tlc("MC_FlowAbs", cfg_text=cfg, workers=4, heap="2g", timeout=900)
        if not r.get("ok_finished") or r.get("invariant_violated"):
            return {"ok": False, "instance": (A, P, N), "out": r["out"][-1500:]}
        states += r.get("distinct", 0)
    return {"ok": True, "states": states, "instances": len(instances)}


# ------------------------------------------------------------------ scenarios with large limits
def gen_flow_large(seed: int, n: int) -> List[Dict[str, Any]]:
    """Limited workers with limits far beyond what TLC enumerates: A up to 9, P up to 7, up to 40 messages."""
    rng = random.Random(("flowlarge", seed).__repr__())
    out = []
    for k in range(n):
        A = rng.randint(1, 9)
        P = rng.randint(0, 7)
        N = rng.choice([0, 0, 0, rng.randint(1, 12)])
        M = rng.randint(A + P + 2, A + P + 24)
        cfg = {"A": A, "P": P, "N": N, "W": rng.choice([-1, -1, 4]), "ackable": rng.random() < 0.7,
               "msgs": rx_gen._msgs(rng, M, ["valid"] * 12 + ["malformed", "unknown"], ["ta0"], instant_p=0.1, outcomes=["ret", "exc"])}
        steps: List[Any] = []
        left = M
        while left > 0:
            b = rng.randint(1, min(left, A + P + 3))
            left -= b
            steps.append(["arrive" + ("_" if rng.random() < 0.2 else ""), b])
            for _ in range(rng.randint(0, A + 1)):
                r = rng.random()
                if r < 0.6:
                    steps.append(["fin_any", rng.randint(0, 9), rng.choice(["ret", "exc", "nores"])])
                elif r < 0.85:
                    steps.append(["adv_rel", rng.choice([1, 3, 4, 10])])
                else:
                    steps.append(["step", rng.randint(1, 5)])
        if rng.random() < 0.5:
            steps += [["stop"]]
        steps += [["adv_rel", 4], ["fin_all", "ret"], ["adv_rel", 8]]
        out.append({"cfg": cfg, "steps": steps, "family": "flow_large"})
    return out


# ------------------------------------------------------------------ conformance to FlowAbs
def eligible(tr: Dict[str, Any]) -> bool:
    c = tr["cfg"]
    if c.get("A", 0) < 1 or c.get("via") == "api":
        return False
    return not any(e["e"] in ("loop_crash", "listen_raised") for e in tr["ev"])


def project(tr: Dict[str, Any]) -> Dict[str, Any]:
    return {"ev": [{"e": e["e"]} for e in tr["ev"] if e["e"] in KEEP]}


def _shard(job: Tuple[str, int, int, int]) -> str:
    path, A, P, N = job
    cfg = (f"SPECIFICATION TraceSpec\nCONSTANTS\n A = {A}\n P = {P}\n N = {N}\nINVARIANT Progress\nINVARIANT Safe\n"
           "POSTCONDITION Done\nCHECK_DEADLOCK FALSE\n")
    r = tlc.run_tlc("TraceFlow", cfg_text=cfg, workers=1, env={"TRACE_FILE": path}, heap="2g", timeout=1800)
    return r["out"]


def conform_flow(traces: List[Dict[str, Any]], procs: int = 12) -> List[Tuple[int, int, int]]:
    """Per eligible trace: (index in `traces`, highest matched position, length + 1)."""
    groups: Dict[Tuple[int, int, int], List[int]] = {}
    for i, tr in enumerate(traces):
        if eligible(tr):
            c = tr["cfg"]
            groups.setdefault((c["A"], c["P"], c.get("N", 0)), []).append(i)
    if not groups:
        return []
    scratch = tlc.scratch_dir("flow")
    try:
        jobs = []
        for gi, ((A, P, N), idxs) in enumerate(sorted(groups.items())):
            path = os.path.join(scratch, f"g{gi}.json")
            with open(path, "w") as f:
                json.dump([project(traces[i]) for i in idxs], f)
            jobs.append((path, A, P, N))
        ctx = mp.get_context("fork")
        with ctx.Pool(min(procs, len(jobs))) as pool:
            outs = pool.map(_shard, jobs)
        res = []
        for ((A, P, N), idxs), out in zip(sorted(groups.items()), outs):
            got = tlc.extract_printed(out, "MAXL")
            if len(got) != len(idxs):
                raise tlc.TLCError("FlowAbs conformance run failed:\n" + out[-3000:])
            for v in got:
                res.append((idxs[v[1] - 1], v[2], v[3]))
        return res
    finally:
        shutil.rmtree(scratch, ignore_errors=True)


if __name__ == "__main__":
    from engine import rx
    print(json.dumps(apalache_proof(), indent=1))
    print(mc_small([(1, 0, 2), (2, 1, 0), (3, 2, 3)]))
    scns = gen_flow_large(0, 60) + rx_gen.gen_flow(5, 100)
    trs = rx.drive(scns)
    t0 = time.time()
    r = conform_flow(trs)
    bad = [(i, a, b) for (i, a, b) in r if a != b]
    print(len(r), "traces checked,", len(bad), "rejected", "%.0fs" % (time.time() - t0))
    for i, a, b in bad[:5]:
        print(scns[i]["cfg"]["A"], scns[i]["cfg"]["P"], scns[i]["cfg"].get("N"), a, b, [e["e"] for e in trs[i]["ev"] if e["e"] in KEEP][:a + 2])

"""C16, label-based half: LabelScheduleSource listing / one-shot removal / payload."""
from __future__ import annotations

import itertools
import json
import os
import random
import sys
import time
from typing import Any, Dict, Iterator, List

ROOT = os.path.dirname(os.path.dirname(os.path.abspath(__file__)))
sys.path.insert(0, ROOT)
from engine import common, mbt, tlc  # noqa: E402

KINDS = [{"k": "cron", "t": 0}, {"k": "time", "t": 1}, {"k": "time", "t": 1}, {"k": "time", "t": 2}, {"k": "both", "t": 1}, {"k": "invalid", "t": 0}]


def _drive_one(scn: Dict[str, Any]) -> Dict[str, Any]:
    from harness import lbl_driver
    return {"cfg": lbl_driver.normalize(scn["cfg"]), "ev": lbl_driver.run(scn)}


def gen_enum(maxlen: int) -> Iterator[Dict[str, Any]]:
    """All entry lists up to maxlen over the six entry kinds on task 1 (+ a second own task and a foreign one), firing orders."""
    for L in range(1, maxlen + 1):
        for combo in itertools.product(range(len(KINDS)), repeat=L):
            entries = [dict(KINDS[k], a=i + 1) for i, k in enumerate(combo)]
            tasks = [{"own": True, "entries": entries}, {"own": False, "entries": [{"k": "time", "t": 1, "a": 90}]},
                     {"own": True, "entries": [{"k": "time", "t": 1, "a": 91}, {"k": "cron", "t": 0, "a": 92}]}]
            n_time = sum(1 for e in entries if e["k"] == "time")
            orders = list(itertools.permutations(range(1, L + 1), min(L, 2))) if L <= 3 else [(1, 2), (L, 1), (2, 2)]
            for order in orders[:6]:
                ops: List[Any] = [["list"]]
                for pos in order:
                    ops += [["fire", 1, pos], ["list"]]
                ops += [["fire", 3, 1], ["list"]]
                yield {"cfg": {"tasks": tasks}, "ops": ops, "family": "label_enum"}
                if order == orders[0]:
                    # the foreign task 2 (listed as foreign at least once) becomes a task of the own broker, is listed and fires
                    yield {"cfg": {"tasks": [tasks[1], tasks[0], tasks[2]]}, "family": "label_enum_adopt",
                           "ops": [["list"], ["fire", 2, order[0]], ["list"], ["adopt", 1], ["list"], ["fire", 1, 1], ["list"], ["fire", 2, 1]]}
                if L >= 2:
                    # the same lists with explicit schedule ids: one id shared by every entry of task 1, and two ids alternating
                    for pat, fam in ((lambda i: 1, "label_enum_sameid"), (lambda i: 1 + i % 2, "label_enum_twoids")):
                        t2 = [{"own": True, "entries": [dict(e, i=pat(i)) for i, e in enumerate(entries)]}] + tasks[1:]
                        yield {"cfg": {"tasks": t2}, "ops": ops, "family": fam}


def gen_random(seed: int, n: int) -> List[Dict[str, Any]]:
    rng = random.Random(("lbl", seed).__repr__())
    out = []
    for _ in range(n):
        tasks = []
        a = 0
        ids = rng.random() < 0.4          # explicit schedule ids (0 = none, generated), shared among entries of a task
        for _ in range(rng.randint(1, 3)):
            entries = []
            for _ in range(rng.randint(0, 5)):
                a += 1
                k = rng.choice(["cron", "time", "time", "time", "both", "invalid"])
                entries.append({"k": k, "t": rng.randint(1, 3) if k in ("time", "both") else 0, "a": a, "i": rng.randint(0, 2) if ids else 0})
            tasks.append({"own": rng.random() < 0.8, "entries": entries})
        ops: List[Any] = []
        for _ in range(rng.randint(1, 8)):
            x = rng.random()
            ops.append(["list"] if x < 0.35 else ["adopt", rng.randint(1, len(tasks))] if x < 0.45 else ["fire", rng.randint(1, len(tasks)), rng.randint(1, 5)])
        out.append({"cfg": {"tasks": tasks}, "ops": ops, "family": "label_random"})
    return out


def run_part(tier: str, rep: common.Reporter) -> Dict[str, Any]:
    """Runs the label-source half; returns coverage/violations to merge into C16's evidence."""
    seed = common.seed()
    q = tier == "quick"
    sys.path.insert(0, mbt.REPO)
    from harness import lbl_driver
    mc_cfgs = [lbl_driver.normalize({"tasks": [{"own": True, "entries": [dict(KINDS[k], a=i + 1) for i, k in enumerate(combo)]},
                                               {"own": False, "entries": [{"k": "time", "t": 1, "a": 9}]}]})
               for L in ((2, 3) if q else (2, 3, 4)) for combo in itertools.product(range(len(KINDS)), repeat=L)]
    mc_cfgs += [lbl_driver.normalize({"tasks": [{"own": True, "entries": [dict(KINDS[k], a=i + 1, i=pat(i)) for i, k in enumerate(combo)]}]})
                for L in (2, 3) for combo in itertools.product(range(len(KINDS)), repeat=L)      # ids: lists <= 3 in both tiers (cost)
                for pat in (lambda i: 1, lambda i: 1 + i % 2, lambda i: i % 2)]
    text = "SPECIFICATION Spec\nCONSTANTS\n  Cfgs <- JsonCfgs\n  MaxOps = %d\n  AllowedViol = {}\nINVARIANT NoViolation\nCHECK_DEADLOCK FALSE\n" % (4 if q else 5)
    r = mbt.mc("MC_Lbl", mc_cfgs, text, timeout=1500 if q else 6000)
    if not r.get("ok_finished") or "distinct" not in r:
        common.die_machinery("C16", "MC_Lbl failed:\n" + r["out"][-2500:])
    scns = list(gen_enum(3 if q else 4)) + gen_random(seed, 500 if q else 6000)
    traces = mbt.drive("engine.lbl_check", "_drive_one", scns)
    verdicts = mbt.observe(traces, "ObsLabel", shards=8)
    viol = 0
    for i, v in enumerate(verdicts):
        for clause, idx in v.items():
            if not clause.startswith("C16_"):
                continue
            viol += 1
            if viol <= 5:
                path = common.save_replay("C16", {"kind": "label", "property": "C16", "clause": clause, "event_index": idx,
                                                  "scenario": {"cfg": scns[i]["cfg"], "ops": scns[i]["ops"]}})
                rep.violation(path, f"clause {clause} false after event {idx} (family {scns[i].get('family')})")
    ctext = "SPECIFICATION TraceSpec\nCONSTANTS\n  Cfgs = {}\n  MaxOps = 1000\n  AllowedViol = {}\nINVARIANT Progress\nPOSTCONDITION Done\nCHECK_DEADLOCK FALSE\n"
    idxs = list(range(0, len(traces), max(1, len(traces) // (300 if q else 3000))))
    try:
        cf = mbt.conform([traces[i] for i in idxs], "TraceLabel", ctext)
    except tlc.TLCError as exc:
        if not rep.violations:
            raise
        rep.info('conformance run failed after violations were found: ' + str(exc)[:300])
        cf = []
    acc = sum(1 for a, b in cf if a == b)
    for (a, b), i in zip(cf, idxs):
        if a != b:
            rep.divergence(f"label-source trace (family {scns[i].get('family')}) not explained by the model beyond event {a - 1} of {b - 1}")
    nontriv = len({json.dumps(t, sort_keys=True) for t in traces if any(e["e"] == "fire" and e["k"] == "time" for e in t["ev"])})
    return {"coverage": {"states": r["distinct"], "transitions": r["generated"], "traces_validated_against_impl": len(traces),
                         "evaluations": len(traces), "distinct_nontrivial": nontriv, "events_checked": sum(len(t["ev"]) for t in traces),
                         "model_conformance": {"checked": len(cf), "accepted": acc},
                         "adopt_events": sum(1 for t in traces for e in t["ev"] if e["e"] == "adopt"),
                         "scenarios_with_shared_explicit_ids": sum(1 for sc in scns if any(
                             len([e for e in t["entries"] if e.get("i")]) > len({e["i"] for e in t["entries"] if e.get("i")}) for t in sc["cfg"]["tasks"])),
                         "sample": {"scenario": scns[len(scns) // 3], "trace": traces[len(scns) // 3]["ev"][:6]}},
            "violations": viol,
            "assumptions": ["label-based half: real LabelScheduleSource + TaskiqScheduler.on_ready + AsyncKicker against a recording broker; "
                            "entry lists of length <= 3 (quick) / 4 (thorough) over {cron, time t1, duplicate time t1, time t2, cron+time, invalid} enumerated exhaustively, "
                            "each also with one explicit schedule_id shared by all entries and with two alternating explicit ids"]}


def replay(path: str) -> int:
    with open(path) as f:
        doc = json.load(f)
    traces = mbt.drive("engine.lbl_check", "_drive_one", [doc["scenario"]])
    v = mbt.observe(traces, "ObsLabel", shards=1)[0]
    for i, e in enumerate(traces[0]["ev"], 1):
        print(i, e)
    print("clauses false:", v)
    if any(c.startswith("C16_") for c in v):
        print(f"VIOLATION property=C16 replay={path}")
        return 1
    return 0

"""Checks C01-C07, C10 (execution side), C12: receiver properties."""
from __future__ import annotations

import hashlib
import json
import os
import sys
import time
from typing import Any, Callable, Dict, List, Tuple

ROOT = os.path.dirname(os.path.dirname(os.path.abspath(__file__)))
sys.path.insert(0, ROOT)

from engine import common, rx, rx_gen, tlc  # noqa: E402

KF_CLAUSES = {"KF_C05_SaturatedNoTimeout": ("C05", "KF-C05-1"), "KF_C12_Reverse_uncached": ("C12", "KF-C12-1")}

FLOW_MSG = {"task": "ta0"}


def _flow(A: int, P: int, N: int, W: int, kinds: List[str]) -> Dict[str, Any]:
    return {"A": A, "P": P, "N": N, "W": W, "msgs": [{"kind": k, "task": "ta0"} for k in kinds]}


def mc_plan(prop: str, tier: str) -> List[Dict[str, Any]]:
    """Exhaustive model runs for this property: list of mc() keyword dicts."""
    V, B = "valid", "malformed"
    q = tier == "quick"
    flow_small = [_flow(1, 0, 2, -1, [V, V, V]), _flow(2, 1, 0, -1, [V, B, V]), _flow(0, 0, 0, -1, [V, V])]
    flow_big = [_flow(A, P, N, -1, [V] * 4) for A in (1, 2) for P in (0, 1, 2) for N in (0, 2)] + \
               [_flow(A, P, 0, -1, [V, B, V, "unknown"]) for A in (0, 1, 3) for P in (0, 1)]
    # (2, 0, 0, 2): a saturated phase that ends during shutdown with the prefetcher parked on the prefetch semaphore --
    # the configuration in which the drain-timeout deadline of C05 is tightest (see TimeoutBase in RxProps.tla)
    timed_small = [_flow(1, 0, 0, 2, [V, V]), _flow(2, 1, 1, -1, [V, V]), _flow(2, 0, 0, 2, [V, V])]
    timed_big = [_flow(1, P, N, 2, [V] * 3) for P in (0, 1) for N in (0, 2)] + \
                [_flow(2, P, 2, 2, [V] * 3) for P in (0, 1)] + \
                [_flow(2, P, 0, W, [V] * 2) for P in (0, 1) for W in (-1, 2)] + [_flow(0, 0, 0, 2, [V] * 2)]
    sat = [_flow(A, P, 0, -1, [V] * (A + P + 3)) for A in (1, 2) for P in (0, 1)]
    sat_big = [_flow(A, P, 0, -1, [V] * (A + P + 3)) for A in (1, 2) for P in (0, 1, 2)] + \
              [_flow(3, P, 0, -1, [V] * (3 + P + 2)) for P in (0, 1)]
    mw1 = [{"pre": "async", "post": "sync", "onerr": "sync", "postsave": "sync", "replace": True}]
    mw2 = mw1 + [{"pre": "sync", "onerr": "async", "postsave": "async"}]

    def pipe(ack: str, aasync: bool, mws: List[Any], msgs: List[Any], bs: bool = False) -> Dict[str, Any]:
        return {"A": 2, "P": 1, "ack": ack, "ack_async": aasync, "mws": mws, "msgs": msgs, "backend_suspend": bs}

    m_wait = {"task": "ta0"}
    m_sf = {"task": "ta0", "savefail": True}
    m_to = {"task": "ta0", "timeout": 2}
    m_sync = {"task": "ts0", "outcome": "exc"}
    pipe_small = [pipe(a, a == "when_executed", mw1, [m_sf, m_wait]) for a in ("when_received", "when_executed", "when_saved")]
    pipe_small.append(dict(pipe("when_saved", False, [], [m_wait, m_sf]), ack_future=True))
    pipe_small.append(dict(pipe("when_received", False, mw1[:0], [m_wait]), ack_future=True, W=2))
    ACKS = ("when_received", "when_executed", "when_saved", "default")
    pipe_big = [pipe(a, s, mw, ms, bs) for a in ACKS
                for s in (False, True) for mw, ms, bs in (([], [m_wait, m_sf], False), (mw2, [m_sync, m_wait], True))]
    pipe_timed = [pipe(a, s, mw1, [m_sf, m_to]) for a in ACKS for s in (False, True)]      # a timeout label: time matters
    chain_u = [{"id": 1, "style": "gen"}, {"id": 2, "style": "agen", "parent": 1, "cached": False, "suspend": True},
               {"id": 3, "style": "acm", "cached": False, "csusp": True}]
    chain_c = [{"id": 1, "style": "cm"}, {"id": 2, "style": "agen", "parent": 1, "suspend": True, "csusp": True},
               {"id": 3, "style": "gen", "parent": 2}]

    def deps(d: List[Any], prop_: bool, msgs: List[Any], ack: str = "when_executed") -> Dict[str, Any]:
        return {"A": 2, "P": 1, "deps": d, "propagate": prop_, "ack": ack, "msgs": msgs}

    t = {"task": "ta"}
    deps_small = [deps(chain_u, True, [t, t]), deps(chain_c, False, [t, {"task": "ta", "timeout": 2}])]
    deps_big = [deps_small[0], deps(chain_u, False, [t, t, t]), deps(chain_c, True, [t, {"task": "ts", "outcome": "exc"}]),
                deps([dict(chain_c[0]), dict(chain_c[1], fail=True), dict(chain_c[2])], True, [t, t])]
    deps_timed = [deps_small[1]]                                                             # a timeout label: time matters
    oc_all = ["ret", "exc", "nores"]
    plans = {
        "C01": [dict(cfgs=flow_small if q else flow_big, outcomes=["ret"], max_now=0)],
        "C03": [dict(cfgs=flow_small if q else flow_big, outcomes=["ret", "exc"], max_now=0)],
        "C04": [dict(cfgs=sat if q else sat_big, outcomes=["ret"], max_now=0)],
        "C05": [dict(cfgs=timed_small, outcomes=["ret"], max_now=9)] if q else
               [dict(cfgs=timed_big, outcomes=["ret"], max_now=9)],
        "C02": [dict(cfgs=pipe_small, outcomes=oc_all, max_now=0)] if q else
               [dict(cfgs=pipe_big, outcomes=oc_all, max_now=0), dict(cfgs=pipe_timed, outcomes=oc_all, max_now=3)],
        "C07": [dict(cfgs=pipe_small, outcomes=oc_all + ["base"], max_now=0)] if q else
               [dict(cfgs=pipe_big, outcomes=oc_all + ["base"], max_now=0), dict(cfgs=pipe_timed, outcomes=oc_all + ["base"], max_now=3)],
        "C10": [dict(cfgs=pipe_small if q else pipe_big + pipe_timed, outcomes=oc_all, max_now=0)],
        "C06": [dict(cfgs=deps_small[:1] if q else deps_big + deps_timed, outcomes=["ret", "exc"], max_now=0)],
        "C12": [dict(cfgs=deps_small, outcomes=["ret", "exc"], max_now=0)] if q else
               [dict(cfgs=deps_big, outcomes=["ret", "exc"], max_now=0), dict(cfgs=deps_timed, outcomes=["ret", "exc"], max_now=3)],
    }
    return plans[prop]


def families(prop: str, tier: str, seed: int) -> List[Dict[str, Any]]:
    q = tier == "quick"
    k = 1 if q else 12
    g = rx_gen
    if prop == "C01":
        s = g.gen_flow(seed, 500 * k) + g.gen_stop_sweep(seed, 200 * k) + g.gen_saturation(seed, 100 * k)
        s += list(g.gen_flow_enum(4 if q else 6, g.flow_enum_cfgs([1, 2], [0, 1], [0, 2], [-1], 3)))
        s += g.gen_pipe(seed + 7, 200 * k)       # hooks in front of the task function (sync / async / future-returning / raising)
    elif prop == "C02":
        s = list(g.gen_pipe_enum()) + g.gen_pipe(seed, 600 * k) + g.gen_deps(seed, 100 * k)
        s += g.gen_stop_sweep(seed + 3, 300 * k)     # shutdown with work in flight, incl. synchronous functions still running in threads
    elif prop == "C03":
        s = g.gen_probe(seed, 500 * k) + g.gen_flow(seed, 300 * k) + g.gen_saturation(seed, 200 * k)
    elif prop == "C04":
        s = g.gen_saturation(seed, 700 * k) + g.gen_flow(seed, 300 * k)
        s += list(g.gen_flow_enum(4 if q else 6, g.flow_enum_cfgs([1, 2], [0, 1, 2], [0], [-1], 5)))
    elif prop == "C05":
        s = g.gen_stop_sweep(seed, 600 * k) + g.gen_flow(seed, 400 * k)
        s += list(g.gen_flow_enum(4 if q else 6, g.flow_enum_cfgs([0, 1, 2], [0, 1], [0, 1, 2], [-1, 2], 3)))
        s += g.gen_teardown_stop(seed + 1, 100 * k)
    elif prop == "C06":
        s = g.gen_deps(seed, 700 * k, uncached_p=0.5) + g.gen_deps(seed + 1, 200 * k, uncached_p=0.1) + g.gen_pipe(seed, 100 * k)
    elif prop == "C07":
        s = list(g.gen_pipe_enum()) + g.gen_pipe(seed, 500 * k) + g.gen_probe(seed, 200 * k)
    elif prop == "C10":
        s = g.gen_pipe(seed, 800 * k) + list(g.gen_pipe_enum())
    elif prop == "C12":
        s = list(g.gen_deps_enum()) + g.gen_deps(seed, 500 * k) + g.gen_deps(seed + 1, 200 * k, uncached_p=0.0)
        s += g.gen_teardown_stop(seed, 200 * k)     # shutdown / drain timeout / task timeout while a teardown is awaiting
    else:
        raise KeyError(prop)
    if prop in ("C01", "C02", "C03", "C04", "C06", "C07", "C12"):
        s += g.gen_api(seed, 150 * k)
    s += g.gen_cli(seed, 200 * k)
    if prop in ("C02", "C05", "C07", "C01"):
        s += g.gen_sync_drain(seed, 120 * k)
    if prop in ("C06", "C07", "C10", "C12"):
        s += g.gen_inmem(seed, 160 * k)
    if prop in ("C03", "C04"):
        s += g.gen_sync_sat(seed, 60 * k)
    if prop in ("C01", "C02", "C03", "C10"):
        s += g.gen_late(seed, 80 * k)
    if prop in ("C03", "C04"):
        from engine import flow
        s += [dict(x, noconf=True) for x in flow.gen_flow_large(seed, 150 * k)]   # conformance of these: TraceFlow (FlowAbs)
    # witnesses of open known findings and regression scenarios of fixed ones are always executed
    for kf in common.known_findings():
        if kf["property"] == prop:
            w = kf.get("witness") or kf.get("regression_scenario")
            if w and "steps" in w:
                s.append({"cfg": w["cfg"], "steps": w["steps"], "family": "ledger:" + kf["id"]})
    return s


def _nontrivial(prop: str, tr: Dict[str, Any]) -> bool:
    ev = tr["ev"]
    c = tr["cfg"]
    names = [e["e"] for e in ev]
    if prop == "C01":
        return names.count("take") >= 2 and ("stop" in names or c["N"] > 0 or any(m["kind"] != "valid" for m in c["msgs"]))
    if prop == "C02":
        live = 0
        for e in ev:
            if e["e"] == "cb_b":
                live += 1
            elif e["e"] == "cb_e":
                live -= 1
            elif e["e"] == "ack" and (live >= 2 or c["ackasync"]):
                return True
        return False
    if prop in ("C03", "C04"):
        live = 0
        taken = 0
        done = 0
        for e in ev:
            if e["e"] == "take":
                taken += 1
            if e["e"] == "cb_b":
                live += 1
            elif e["e"] == "cb_e":
                live -= 1
                done += 1
            if prop == "C03" and c["A"] > 0 and live >= c["A"]:
                return True
            if prop == "C04" and c["A"] > 0 and taken - done >= c["A"] + c["P"]:
                return True
        return False
    if prop == "C05":
        live = 0
        for e in ev:
            if e["e"] == "cb_b":
                live += 1
            elif e["e"] == "cb_e":
                live -= 1
            elif e["e"] == "stop" and live >= 1:
                return True
        return c["N"] > 0 and names.count("take") >= c["N"]
    if prop == "C06":
        live = set()
        for e in ev:
            if e["e"] == "cb_b":
                live.add(e["m"])
            elif e["e"] == "cb_e":
                live.discard(e["m"])
            elif e["e"] in ("dep_open", "dep_opened") and len(live) >= 2:
                return True
        return False
    if prop == "C07":
        return any(e["e"] == "save_b" and e["s"] != "none" for e in ev) or any(e["e"] == "save_e" and e["s"] == "fail" for e in ev)
    if prop == "C10":
        return any(e["e"].endswith("_b") and e["e"] != "cb_b" and e["e"] != "save_b" for e in ev)
    if prop == "C12":
        return "dep_close" in names
    return True


ASSUMPTIONS = [
    "real taskiq code from /repo's working tree runs on a virtual-time asyncio loop with FIFO ready queue (only schedules stock asyncio can produce)",
    "the broker, result backend, middlewares, dependencies and task bodies are scripted recorders; sync tasks run on an inline executor",
    "time advances only when the loop is quiescent; durations are multiples of 0.1 s",
    "property clauses are the TLA+ operators of spec/RxProps.tla evaluated by TLC after every recorded event",
]

DOMAIN = {
    "C02": "valid messages of known tasks delivered with an ack callback; middleware hooks that raise are outside the domain",
    "C05": "timeout liveness measured from the latest of stop / N-th take / last completion / last take, plus one poll period",
    "C12": "reverse-order clause: pairs involving a use_cache=False edge are the known finding KF-C12-1 (third-party resolver)",
}


LAST: Dict[str, Any] = {}


def run_check(prop: str, tier: str, write: bool = True) -> int:
    rep = common.Reporter(prop)
    t0 = time.time()
    seed = common.seed()
    sw = rx.tree_switches()
    allowed = [cl for cl, (p, kid) in KF_CLAUSES.items() if any(k["id"] == kid for k in common.open_findings(p))]
    # ---- 1. exhaustive model checking of the design, configured like the tree
    states = transitions = 0
    mc_runs = []
    model_findings: List[str] = []
    for plan in mc_plan(prop, tier):
        r = rx.mc(allowed=allowed, switches=sw, timeout=1500 if tier == "quick" else 7000, **plan)
        if r.get("invariant_violated") and "distinct" in r:
            # the design, configured like the tree, admits a bad state: only a real execution makes a VIOLATION
            mv = tlc.extract_printed(r["out"], "nothing")
            model_findings.append(str(r["invariant_violated"]))
            rep.info("MODEL-FINDING: the model configured like the tree violates %s" % r["invariant_violated"])
        elif not r.get("ok_finished") or "distinct" not in r:
            common.die_machinery(prop, "TLC failed:\n" + r["out"][-2000:])
        states += r["distinct"]
        transitions += r["generated"]
        mc_runs.append({"cfgs": r["n_cfgs"], "distinct": r["distinct"], "generated": r["generated"], "depth": r.get("depth"),
                        "wall_s": round(r["wall_s"], 1)})
    rep.info(f"model checking: {states} distinct states, {transitions} transitions in {len(mc_runs)} run(s)")
    # ---- 2. scenarios: families + behaviours simulated by TLC from the model
    scns = families(prop, tier, seed)
    sim_cfgs = [c for plan in mc_plan(prop, "quick") for c in plan["cfgs"]]
    sims = rx.simulate(sim_cfgs, num=150 if tier == "quick" else 2000, depth=40, seed=seed + 1,
                       outcomes=["ret", "exc", "nores"], max_now=100000, switches=sw)
    # each simulated behaviour twice: with the model's mid-flight step counts, and settled
    scns += sims
    # ---- 3. drive the real code, observe with TLC
    traces = rx.drive(scns)
    verdicts = rx.observe(traces, shards=8 if tier == "quick" else 16)
    prefixes = tuple(p + "_" for p in [prop])
    viol_n = 0
    seen_kf = set()
    for i, v in enumerate(verdicts):
        for clause, idx in v.items():
            if clause.startswith("KF_"):
                p, kid = KF_CLAUSES.get(clause, (None, None))
                if p != prop:
                    continue
                if clause in allowed:
                    if kid not in seen_kf:
                        seen_kf.add(kid)
                        kf = [k for k in common.open_findings(prop) if k["id"] == kid][0]
                        rep.known_finding(kid, kf["what"])
                    continue
            elif not clause.startswith(prefixes):
                continue
            viol_n += 1
            if viol_n <= 5:
                path = common.save_replay(prop, {"kind": "rx", "property": prop, "clause": clause, "event_index": idx,
                                                 "scenario": {"cfg": scns[i]["cfg"], "steps": scns[i]["steps"]}})
                rep.violation(path, f"clause {clause} false after event {idx} of {len(traces[i]['ev'])} (family {scns[i].get('family')})")
    # ---- 4. conformance of real traces to the model (sample)
    ncf = 160 if tier == "quick" else 2500
    step = max(1, len(traces) // ncf)
    sample_idx = [i for i in range(0, len(traces), step) if not scns[i].get("noconf")][:ncf]
    try:
        cf = rx.conform([traces[i] for i in sample_idx], switches=sw)
    except tlc.TLCError as exc:
        if not rep.violations:
            raise
        rep.info('conformance run failed after violations were found: ' + str(exc)[:300])
        cf = []
    accepted = sum(1 for a, b in cf if a == b)
    for (a, b), i in zip(cf, sample_idx):
        if a != b:
            rep.divergence(f"trace of family {scns[i].get('family')} not explained by the model beyond event {a - 1} of {b - 1}")
    # ---- 4b. C03/C04 for every A, P, N: FlowAbs (Apalache inductive invariant) + conformance of real traces to FlowAbs
    parametric: Dict[str, Any] = {}
    if prop in ("C03", "C04"):
        from engine import flow
        pr = flow.apalache_proof()
        if not pr["ok"]:
            common.die_machinery(prop, "Apalache did not discharge the FlowAbs obligations: %s" % json.dumps(pr)[:1500])
        inst = [(1, 0, 2), (2, 1, 0), (3, 2, 3)] if tier == "quick" else [(a, p_, n) for a in (1, 2, 3, 4) for p_ in (0, 1, 2, 3) for n in (0, 2, 5)]
        ms = flow.mc_small(inst, slack=3 if tier == "quick" else 5)
        if not ms["ok"]:
            common.die_machinery(prop, "TLC refutes FlowAbs invariants on a small instance: %s" % json.dumps(ms)[:1500])
        fl_idx = [i for i in range(len(traces)) if scns[i].get("family") == "flow_large"]
        rest = [i for i in range(len(traces)) if scns[i].get("family") != "flow_large" and flow.eligible(traces[i])]
        fl_idx += rest[::max(1, len(rest) // (300 if tier == "quick" else 3000))]
        try:
            fr = flow.conform_flow([traces[i] for i in fl_idx])
        except tlc.TLCError as exc:
            if not rep.violations:
                raise
            rep.info("FlowAbs conformance run failed after violations were found: " + str(exc)[:300])
            fr = []
        f_acc = sum(1 for (_, a, b) in fr if a == b)
        for (j, a, b) in fr:
            if a != b:
                rep.divergence(f"trace of family {scns[fl_idx[j]].get('family')} is not a behaviour of FlowAbs beyond projected event {a - 1} of {b - 1}")
        parametric = {"apalache": pr, "tlc_small_instances": {"instances": ms["instances"], "distinct": ms["states"]},
                      "flowabs_conformance": {"checked": len(fr), "accepted": f_acc,
                                              "largest_limits": "A <= 9, P <= 7, up to 40 messages (family flow_large)"}}
        rep.info(f"FlowAbs: Apalache discharged {len(pr['obligations'])} obligations for all A >= 1, P, N in {pr['wall_s']}s; "
                 f"{f_acc}/{len(fr)} real traces are behaviours of FlowAbs")
    # ---- 5. evidence
    canon = set()
    nontriv = 0
    for tr in traces:
        h = hashlib.sha1(json.dumps([tr["cfg"], [(e["e"], e["m"], e["x"], e["y"], e["s"]) for e in tr["ev"]]],
                                    sort_keys=True).encode()).hexdigest()
        if h in canon:
            continue
        canon.add(h)
        if _nontrivial(prop, tr):
            nontriv += 1
    fam_count: Dict[str, int] = {}
    for s in scns:
        fam_count[s.get("family", "?")] = fam_count.get(s.get("family", "?"), 0) + 1
    samples = []
    for i in (0, len(scns) // 2, len(scns) - 1):
        samples.append({"scenario": {"cfg": scns[i]["cfg"], "steps": scns[i]["steps"]},
                        "trace_head": [[e["t"], e["e"], e["m"], e["x"], e["y"], e["s"]] for e in traces[i]["ev"][:25]],
                        "clauses_false": verdicts[i]})
    coverage = {
        "states": states, "transitions": transitions,
        "traces_validated_against_impl": len(traces),
        "samples": samples,
        "evaluations": len(traces), "distinct_nontrivial": nontriv,
        "rule": "scenario = configuration + environment steps executed against the real Receiver.listen(); distinct by "
                "(configuration, recorded event sequence without timestamps); non-trivial per property (see engine/rx_check.py:_nontrivial)",
        "events_checked": sum(len(t["ev"]) for t in traces),
        "families": fam_count,
        "mc_runs": mc_runs,
        "model_conformance": {"checked": len(cf), "accepted": accepted},
        "parametric": parametric,
        "model_switches": sw,
        "known_findings_reproduced": sorted(seen_kf),
        "checker_cmd": "tlc ObsReceiver (verdict) / TraceReceiver (conformance) / MC_Rx (design)",
        "exhaustive": False,
    }
    LAST.clear()
    LAST.update({"coverage": coverage, "violations": viol_n, "assumptions": ASSUMPTIONS})
    if write:
        common.write_evidence(prop, tier, coverage, ASSUMPTIONS + ([DOMAIN[prop]] if prop in DOMAIN else []),
                              time.time() - t0, viol_n)
    rep.info(f"{len(traces)} real executions, {coverage['events_checked']} events judged, {viol_n} violations, "
             f"conformance {accepted}/{len(cf)}, {time.time() - t0:.0f}s")
    if model_findings and not rep.violations:
        common.die_machinery(prop, "the model (configured like the tree) fails %s but no real execution does: model and tree disagree" % model_findings)
    return rep.exit_code()


def replay(prop: str, path: str) -> int:
    with open(path) as f:
        doc = json.load(f)
    scn = doc["scenario"]
    traces = rx.drive([scn], procs=1)
    v = rx.observe(traces, shards=1)[0]
    for e_i, e in enumerate(traces[0]["ev"], 1):
        print(e_i, e["t"], e["e"], e["m"], e["x"], e["y"], e["s"])
    print("clauses false:", v)
    bad = {c: i for c, i in v.items() if c.startswith(prop + "_")}
    if bad:
        print(f"VIOLATION property={prop} replay={path}")
        return 1
    return 0

"""Generic model-based-testing engines shared by all modules.

drive    - run scenarios through a driver function in a process pool
observe  - TLC on an Obs* spec: property clauses evaluated on every prefix of every trace
conform  - TLC on a Trace* spec: per trace, highest matched position
mc       - exhaustive TLC run of an MC_* wrapper on a JSON configuration family
simulate - TLC -simulate on a Sim_* wrapper: behaviours projected to environment/API moves
"""
from __future__ import annotations

import importlib
import json
import multiprocessing as mp
import os
import shutil
import sys
import tempfile
from typing import Any, Callable, Dict, List, Optional, Tuple

ROOT = os.path.dirname(os.path.dirname(os.path.abspath(__file__)))
sys.path.insert(0, ROOT)
from engine import tlc  # noqa: E402

REPO = os.environ.get("VERIF_REPO", "/repo")


def _init_worker() -> None:
    if REPO not in sys.path:
        sys.path.insert(0, REPO)
    import logging
    logging.disable(logging.CRITICAL)


def _call(job: Tuple[str, str, Any]) -> Any:
    mod, fn, arg = job
    try:
        return getattr(importlib.import_module(mod), fn)(arg)
    except BaseException as exc:  # noqa: BLE001
        import traceback
        return {"__error__": "".join(traceback.format_exception(exc))[-3000:]}


def drive(mod: str, fn: str, scns: List[Any], procs: int = 16) -> List[Any]:
    """Apply module.fn to every scenario in worker processes (fresh import of the code under test)."""
    if not scns:
        return []
    if REPO not in sys.path:
        sys.path.insert(0, REPO)
    if os.environ.get("VERIF_INLINE") == "1":      # coverage measurement (tools/coverage_report.sh): no worker processes
        _init_worker()
        res = [_call((mod, fn, s)) for s in scns]
    else:
        ctx = mp.get_context("fork")
        n = min(procs, max(1, len(scns) // 20 + 1))
        with ctx.Pool(n, initializer=_init_worker) as pool:
            res = pool.map(_call, [(mod, fn, s) for s in scns], chunksize=max(1, len(scns) // (n * 8)))
    for r, s in zip(res, scns):
        if isinstance(r, dict) and "__error__" in r:
            raise RuntimeError("driver failed on scenario %s:\n%s" % (json.dumps(s, default=str)[:600], r["__error__"]))
    return res


def _tlc_job(job: Dict[str, Any]) -> str:
    r = tlc.run_tlc(job["module"], cfg_text=job.get("cfg_text"), cfg_file=job.get("cfg_file"), workers=job.get("workers", 1),
                    env=job["env"], heap=job.get("heap", "3g"), timeout=job.get("timeout", 3600))
    return r["out"]


def _shard(traces: List[Any], shards: int, scratch: str) -> List[Tuple[str, int, int]]:
    n = len(traces)
    bounds = [(i * n // shards, (i + 1) * n // shards) for i in range(shards)]
    jobs = []
    for si, (a, b) in enumerate(bounds):
        if a == b:
            continue
        path = os.path.join(scratch, f"batch{si}.json")
        with open(path, "w") as f:
            json.dump(traces[a:b], f)
        jobs.append((path, a, b))
    return jobs


def observe(traces: List[Dict[str, Any]], module: str, shards: int = 8, per_shard_min: int = 50) -> List[Dict[str, int]]:
    """Per trace: {clause: first event index at which it is false}."""
    if not traces:
        return []
    scratch = tlc.scratch_dir("obs")
    try:
        n = len(traces)
        shards = max(1, min(shards, n // per_shard_min + 1))
        jobs = _shard(traces, shards, scratch)
        ctx = mp.get_context("fork")
        with ctx.Pool(len(jobs)) as pool:
            outs = pool.map(_tlc_job, [{"module": module, "cfg_file": module + ".cfg", "workers": 2,
                                        "env": {"TRACE_FILE": p}} for p, _, _ in jobs])
        verdicts: List[Dict[str, int]] = [{} for _ in range(n)]
        for (path, a, b), out in zip(jobs, outs):
            seen = set()
            for v in tlc.extract_printed(out, "VERDICT"):
                seen.add(v[1])
                verdicts[a + v[1] - 1] = {name: idx for name, idx in v[2]["__set__"]}
            if len(seen) != b - a:
                raise tlc.TLCError(f"observer {module} did not return a verdict for every trace:\n" + out[-3000:])
        return verdicts
    finally:
        shutil.rmtree(scratch, ignore_errors=True)


def conform(traces: List[Dict[str, Any]], module: str, cfg_text: str, shards: int = 12) -> List[Tuple[int, int]]:
    """Per trace: (highest matched position, length+1); accepted iff equal."""
    if not traces:
        return []
    scratch = tlc.scratch_dir("conf")
    try:
        n = len(traces)
        shards = max(1, min(shards, n // 10 + 1))
        jobs = _shard(traces, shards, scratch)
        ctx = mp.get_context("fork")
        with ctx.Pool(len(jobs)) as pool:
            outs = pool.map(_tlc_job, [{"module": module, "cfg_text": cfg_text, "workers": 1, "env": {"TRACE_FILE": p}}
                                       for p, _, _ in jobs])
        res: List[Tuple[int, int]] = [(0, 0)] * n
        for (path, a, b), out in zip(jobs, outs):
            got = tlc.extract_printed(out, "MAXL")
            if len(got) != b - a:
                raise tlc.TLCError(f"conformance run {module} failed:\n" + out[-3000:])
            for v in got:
                res[a + v[1] - 1] = (v[2], v[3])
        return res
    finally:
        shutil.rmtree(scratch, ignore_errors=True)


def mc(module: str, cfgs: List[Dict[str, Any]], cfg_text: str, workers: int = 16, timeout: int = 3000,
       coverage: bool = False, env_extra: Optional[Dict[str, str]] = None) -> Dict[str, Any]:
    scratch = tlc.scratch_dir("mc")
    try:
        path = os.path.join(scratch, "cfgs.json")
        with open(path, "w") as f:
            json.dump(cfgs, f)
        env = {"CFG_FILE": path}
        env.update(env_extra or {})
        r = tlc.run_tlc(module, cfg_text=cfg_text, workers=workers, env=env, timeout=timeout,
                        extra=["-coverage", "1"] if coverage else [])
        r["n_cfgs"] = len(cfgs)
        return r
    finally:
        shutil.rmtree(scratch, ignore_errors=True)


def simulate(module: str, cfgs: List[Dict[str, Any]], cfg_text: str, num: int, depth: int, seed: int) -> List[Tuple[int, Any]]:
    """Returns [(cfg index (1-based), elog), ...]."""
    scratch = tlc.scratch_dir("sim")
    try:
        path = os.path.join(scratch, "cfgs.json")
        with open(path, "w") as f:
            json.dump(cfgs, f)
        r = tlc.run_tlc(module, cfg_text=cfg_text, workers=1, env={"CFG_FILE": path}, timeout=1200,
                        extra=["-simulate", f"num={num}", "-depth", str(depth), "-seed", str(seed)])
        got = [(v[1], v[2]) for v in tlc.extract_printed(r["out"], "SCN")]
        if not got:
            raise tlc.TLCError(f"simulation {module} produced no behaviours:\n" + r["out"][-2500:])
        return got
    finally:
        shutil.rmtree(scratch, ignore_errors=True)


def b(x: bool) -> str:
    return "TRUE" if x else "FALSE"


def strset(xs: List[str]) -> str:
    return "{" + ", ".join('"%s"' % x for x in xs) + "}"


def intset(xs: List[int]) -> str:
    return "{" + ", ".join(str(x) for x in xs) + "}"

"""Checks C17 / C18: worker process manager."""
from __future__ import annotations

import hashlib
import itertools
import json
import os
import random
import sys
import time
from typing import Any, Dict, Iterator, List

ROOT = os.path.dirname(os.path.dirname(os.path.abspath(__file__)))
sys.path.insert(0, ROOT)
from engine import common, mbt, tlc  # noqa: E402


def switches() -> Dict[str, bool]:
    with open(os.path.join(ROOT, "spec", "tree_switches.json")) as f:
        return json.load(f)["procman"]


def _drive_one(scn: Dict[str, Any]) -> Dict[str, Any]:
    from harness import pm_driver
    return {"cfg": {"workers": scn["cfg"]["workers"], "max_fails": scn["cfg"]["max_fails"]}, "ev": pm_driver.run(scn)}


def const_text(sw: Dict[str, bool], max_ticks: int, max_env: int, cfgs: str = "Cfgs <- JsonCfgs") -> str:
    return (f"CONSTANTS\n  KillChecksAlive = {mbt.b(sw['KillChecksAlive'])}\n  {cfgs}\n  MaxTicks = {max_ticks}\n"
            f"  MaxEnvPerPos = {max_env}\n  AllowedViol = {{}}\n  BootDeaths = TRUE\n")


def env_alphabet(workers: int) -> List[List[Any]]:
    # a worker may crash (status 1) or exit cleanly (status 0, e.g. after max-tasks-per-child): both must be replaced
    return [["die", i, i % 2] for i in range(workers)] + [["sighup"], ["sigint"], ["reload"]]


def gen_enum(workers: int, max_fails: int, depth: int, per_pos: int) -> Iterator[Dict[str, Any]]:
    """All histories of `depth` ticks with at most `per_pos` events at each of the two positions of a tick."""
    alpha = env_alphabet(workers)
    pos_choices: List[List[Any]] = [[]]
    for k in range(1, per_pos + 1):
        pos_choices += [list(c) for c in itertools.permutations(alpha, k)]
    # keep the per-tick product manageable: "drained" position gets <= 1 event
    drained_choices = [[]] + [[a] for a in alpha]
    tick_choices = [{"sleep": s, "drained": d} for s in pos_choices for d in drained_choices]
    for combo in itertools.product(tick_choices, repeat=depth):
        yield {"cfg": {"workers": workers, "max_fails": max_fails, "slow_stop": True}, "ticks": list(combo) + [{}, {}], "family": "pm_enum"}


def gen_random(seed: int, n: int, long: bool) -> List[Dict[str, Any]]:
    rng = random.Random(("pm", seed, long).__repr__())
    out = []
    for _ in range(n):
        w = rng.randint(1, 3)
        mf = rng.choice([-1, 0, 1, 2, 3, 5] if not long else [-1, 0, 3, 8, 20])
        nt = rng.randint(20, 60) if long else rng.randint(2, 8)
        ticks = []
        alpha = env_alphabet(w)
        p_ev = 0.15 if long else 0.45
        for t in range(nt):
            tk: Dict[str, Any] = {"sleep": [], "drained": []}
            for pos in ("sleep", "drained"):
                while rng.random() < p_ev and len(tk[pos]) < 3:
                    ev = list(rng.choice(alpha))
                    if ev[0] == "die":
                        ev[2] = rng.choice([0, 1, 1, -9])
                    if ev[0] == "sigint" and rng.random() < (0.8 if long else 0.5):
                        continue
                    tk[pos].append(ev)
            if t >= 1 and rng.random() < (0.05 if long else 0.2):
                tk["boot"] = sorted(rng.sample(range(w), rng.randint(1, w)))      # replacements started in this tick die while booting
            if rng.random() < (0.02 if long else 0.08):
                # an editor saving many files at once: a burst of reload requests in one interval
                tk["sleep"] = tk["sleep"] + [["reload"]] * rng.randint(5, 9)
            ticks.append(tk)
        scn = {"cfg": {"workers": w, "max_fails": mf, "slow_stop": True}, "ticks": ticks + [{}, {}], "family": "pm_long" if long else "pm_random"}
        if rng.random() < 0.1:
            scn["cfg"]["boot0"] = sorted(rng.sample(range(w), rng.randint(1, w)))     # workers that crash while the pool is being spawned
            scn["noconf"] = True
        out.append(scn)
    return out


def sim_scenarios(seed: int, num: int, sw: Dict[str, bool]) -> List[Dict[str, Any]]:
    cfgs = [{"workers": w, "max_fails": mf} for w in (1, 2, 3) for mf in (-1, 1, 3)]
    text = "INIT SimInit\nNEXT SimNext\n" + const_text(sw, 12, 2, cfgs="Cfgs = {}") + "  SimDepth = 0\nINVARIANT Dump\nCHECK_DEADLOCK FALSE\n"
    out = []
    for v in mbt.simulate("Sim_Pm", cfgs, text, num=num, depth=90, seed=seed):
        pass
    return out


def _sim(seed: int, num: int, sw: Dict[str, bool]) -> List[Dict[str, Any]]:
    from engine import tlc as _t
    import tempfile, shutil
    cfgs = [{"workers": w, "max_fails": mf} for w in (1, 2, 3) for mf in (-1, 1, 3)]
    text = "INIT SimInit\nNEXT SimNext\n" + const_text(sw, 12, 2, cfgs="Cfgs = {}") + "  SimDepth = 0\nINVARIANT Dump\nCHECK_DEADLOCK FALSE\n"
    scratch = tlc.scratch_dir("pmsim")
    try:
        path = os.path.join(scratch, "cfgs.json")
        json.dump(cfgs, open(path, "w"))
        r = _t.run_tlc("Sim_Pm", cfg_text=text, workers=1, env={"CFG_FILE": path}, timeout=900,
                       extra=["-simulate", f"num={num}", "-depth", "120", "-seed", str(seed)])
        out = []
        for v in _t.extract_printed(r["out"], "SCN"):
            cid, nticks, elog = v[1], v[2], v[3]
            ticks: List[Dict[str, Any]] = [{"sleep": [], "drained": []} for _ in range(max(nticks, 1) + 2)]
            for e in elog:
                ev = ["die", e["slot"]] if e["e"] == "die" else [e["e"]]
                ticks[e["tick"] - 1][e["s"]].append(ev)
            out.append({"cfg": cfgs[cid - 1], "ticks": ticks, "family": "tlc_simulate"})
        if not out:
            raise _t.TLCError("Sim_Pm produced no behaviours:\n" + r["out"][-2000:])
        return out
    finally:
        shutil.rmtree(scratch, ignore_errors=True)


def _nontrivial(prop: str, tr: Dict[str, Any]) -> bool:
    names = [e["e"] for e in tr["ev"]]
    if prop == "C17":
        return "die" in names and names.count("start") > tr["cfg"]["workers"]
    return ("sigint" in names or "sighup" in names or "reload" in names or any(e["e"] == "ret" for e in tr["ev"])) and "die" in names


def run_check(prop: str, tier: str) -> int:
    rep = common.Reporter(prop)
    t0 = time.time()
    seed = common.seed()
    sw = switches()
    q = tier == "quick"
    cfgs = [{"workers": w, "max_fails": mf} for w in (1, 2) for mf in (-1, 0, 1, 2, 3)]
    if not q:
        cfgs += [{"workers": 3, "max_fails": mf} for mf in (-1, 2)]
    text = "SPECIFICATION Spec\n" + const_text(sw, 3 if q else 4, 2) + "INVARIANT NoViolation\nINVARIANT TableOK\nCHECK_DEADLOCK FALSE\n"
    r = mbt.mc("MC_Pm", cfgs, text, timeout=1500 if q else 7000)
    model_findings: List[str] = []
    if r.get("invariant_violated") and "distinct" in r:
        model_findings = r["invariant_violated"]
        rep.info("MODEL-FINDING: the model configured like the tree violates %s" % model_findings)
    elif not r.get("ok_finished") or "distinct" not in r:
        common.die_machinery(prop, "TLC failed:\n" + r["out"][-2500:])
    states, transitions = r["distinct"], r["generated"]
    rep.info(f"model checking: {states} distinct states, {transitions} transitions ({len(cfgs)} configurations)")
    scns: List[Dict[str, Any]] = []
    for w in (1, 2):
        for mf in ((-1, 1, 2) if q else (-1, 0, 1, 2, 3)):
            scns += list(gen_enum(w, mf, 2, 1 if (q or w == 2) else 2))
    if not q:
        for mf in (-1, 1, 2):
            scns += list(gen_enum(3, mf, 2, 1))
            scns += list(gen_enum(1, mf, 3, 1))
    scns += gen_random(seed, 600 if q else 8000, long=False) + gen_random(seed, 60 if q else 800, long=True)
    scns += _sim(seed + 1, 100 if q else 1500, sw)
    for kf in common.known_findings():
        if kf["property"] == prop and kf.get("regression_scenario"):
            scns.append(dict(kf["regression_scenario"], family="ledger:" + kf["id"]))
    for i, scn in enumerate(scns):          # every third history: the manager is built by the command-line route (run_worker)
        if i % 3 == 1 and not str(scn.get("family", "")).startswith("ledger:"):
            scn["cfg"] = dict(scn["cfg"], via="cli", reload=(i % 2 == 1))     # with --reload when there is one worker
        elif i % 4 == 3 and not str(scn.get("family", "")).startswith("ledger:"):
            scn["cfg"] = dict(scn["cfg"], reload=True)      # development mode (--reload): supervision rules are the same
    traces = mbt.drive("engine.pm_check", "_drive_one", scns)
    verdicts = mbt.observe(traces, "ObsPm", shards=8 if q else 16)
    viol_n = 0
    for i, v in enumerate(verdicts):
        for clause, idx in v.items():
            if not clause.startswith(prop + "_"):
                continue
            viol_n += 1
            if viol_n <= 5:
                path = common.save_replay(prop, {"kind": "pm", "property": prop, "clause": clause, "event_index": idx,
                                                 "scenario": {"cfg": scns[i]["cfg"], "ticks": scns[i]["ticks"]}})
                rep.violation(path, f"clause {clause} false after event {idx} of {len(traces[i]['ev'])} (family {scns[i].get('family')})")
    ncf = 400 if q else 5000
    idxs = [i for i in range(0, len(traces), max(1, len(traces) // ncf)) if not scns[i].get("noconf")][:ncf]
    ctext = "SPECIFICATION TraceSpec\n" + const_text(sw, 100000, 100000, cfgs="Cfgs = {}") + "INVARIANT Progress\nPOSTCONDITION Done\nCHECK_DEADLOCK FALSE\n"
    try:
        cf = mbt.conform([traces[i] for i in idxs], "TracePm", ctext)
    except tlc.TLCError as exc:
        if not rep.violations:
            raise
        rep.info('conformance run failed after violations were found: ' + str(exc)[:300])
        cf = []
    accepted = sum(1 for a, b in cf if a == b)
    for (a, b), i in zip(cf, idxs):
        if a != b:
            rep.divergence(f"trace of family {scns[i].get('family')} not explained by the model beyond event {a - 1} of {b - 1}")
    canon = set()
    nontriv = 0
    for tr in traces:
        h = hashlib.sha1(json.dumps(tr, sort_keys=True).encode()).hexdigest()
        if h not in canon:
            canon.add(h)
            nontriv += 1 if _nontrivial(prop, tr) else 0
    fam: Dict[str, int] = {}
    for s in scns:
        fam[s.get("family", "?")] = fam.get(s.get("family", "?"), 0) + 1
    samples = [{"scenario": {"cfg": scns[i]["cfg"], "ticks": scns[i]["ticks"][:6]},
                "trace_head": [[e["e"], e["slot"], e["pid"], e["n"], e["s"]] for e in traces[i]["ev"][:24]], "clauses_false": verdicts[i]}
               for i in (3, len(scns) // 2, len(scns) - 1)]
    coverage = {
        "states": states, "transitions": transitions, "traces_validated_against_impl": len(traces), "samples": samples,
        "evaluations": len(traces), "distinct_nontrivial": nontriv,
        "rule": "scenario = (workers, max_fails) + per tick and per injection point (during sleep / after the queue was drained) a list of worker deaths, "
                "SIGHUP, SIGINT/SIGTERM, file-change reloads; executed by the real ProcessManager.start(); distinct by recorded events; "
                "non-trivial: a death followed by a replacement (C17) / a death together with a signal, reload or an exit status (C18)",
        "events_checked": sum(len(t["ev"]) for t in traces), "families": fam,
        "model_conformance": {"checked": len(cf), "accepted": accepted}, "model_switches": sw,
        "checker_cmd": "tlc ObsPm (verdict) / TracePm (conformance) / MC_Pm (design: all histories up to the tick bound, 2 events per position)",
        "exhaustive": False,
    }
    common.write_evidence(prop, tier, coverage, [
        "real ProcessManager / ReloadOneAction / signal handlers from /repo's working tree; multiprocessing.Process/Queue/Event, time.sleep, os.kill, "
        "signal.signal and current_process are replaced by fakes implementing the OS contract that matters (is_alive()/join() reap a dead child, "
        "os.kill on a reaped pid raises ProcessLookupError, terminate() of a dead process is a no-op)",
        "file-change events are injected by calling schedule_workers_reload, as the watchdog handler does (watchdog is not installed)",
    ], time.time() - t0, viol_n)
    rep.info(f"{len(traces)} real histories, {coverage['events_checked']} events judged, {viol_n} violations, conformance {accepted}/{len(cf)}, "
             f"{time.time() - t0:.0f}s")
    if model_findings and not rep.violations:
        common.die_machinery(prop, "the model (configured like the tree) fails %s but no real execution does" % model_findings)
    return rep.exit_code()


def replay(prop: str, path: str) -> int:
    with open(path) as f:
        doc = json.load(f)
    traces = mbt.drive("engine.pm_check", "_drive_one", [doc["scenario"]])
    v = mbt.observe(traces, "ObsPm", shards=1)[0]
    for i, e in enumerate(traces[0]["ev"], 1):
        print(i, e["e"], e["slot"], e["pid"], e["n"], e["s"])
    print("clauses false:", v)
    if any(c.startswith(prop + "_") for c in v):
        print(f"VIOLATION property={prop} replay={path}")
        return 1
    return 0

"""Checks C09, C10 (send side; the execution side lives in rx_check) and C11."""
from __future__ import annotations

import hashlib
import json
import os
import sys
import time
from typing import Any, Dict, List, Tuple

ROOT = os.path.dirname(os.path.dirname(os.path.abspath(__file__)))
sys.path.insert(0, ROOT)

from engine import cl_gen, common, mbt, tlc  # noqa: E402


def switches() -> Dict[str, bool]:
    with open(os.path.join(ROOT, "spec", "tree_switches.json")) as f:
        return json.load(f)["client"]


def const_text(sw: Dict[str, bool], max_ops: int, wl_names: List[str], wl_vids: List[int], allowed: List[str],
               cfgs: str = "Cfgs <- JsonCfgs") -> str:
    return f"""CONSTANTS
  KickerAliasesTaskLabels = {mbt.b(sw['KickerAliasesTaskLabels'])}
  RequeueRePrepares = {mbt.b(sw['RequeueRePrepares'])}
  {cfgs}
  MaxOps = {max_ops}
  WlNames = {mbt.strset(wl_names)}
  WlVids = {mbt.intset(wl_vids)}
  AllowedViol = {mbt.strset(allowed)}
"""


def _drive_one(scn: Dict[str, Any]) -> Dict[str, Any]:
    from harness import cl_driver
    ev = cl_driver.run(scn)
    return {"cfg": cl_driver.tla_view(cl_driver.normalize(scn["cfg"])), "ev": ev}


def drive(scns: List[Dict[str, Any]]) -> List[Dict[str, Any]]:
    return mbt.drive("engine.cl_check", "_drive_one", scns)


def _norm(cfg: Dict[str, Any]) -> Dict[str, Any]:
    sys.path.insert(0, mbt.REPO)
    from harness import cl_driver
    return cl_driver.tla_view(cl_driver.normalize(cfg))


def mc_cfgs(prop: str, tier: str) -> Tuple[List[Dict[str, Any]], Dict[str, Any]]:
    q = tier == "quick"
    r_on = {"on": True, "defcount": 2, "deflabel": True, "nores": True}
    r_lbl = {"on": True, "defcount": 3, "deflabel": False, "nores": False}
    mw = [{"pre": "sync", "post": "async", "replace": True}, {"pre": "async", "post": "", "replace": False}]
    if prop == "C09":
        cfgs = [{"decl": [["a", 1]], "retry": r_on, "nk": 2}, {"decl": [["a", 4], ["b", 12]], "retry": r_on, "nk": 1}]
        params = dict(max_ops=5 if q else 6, wl_names=["a", "b"], wl_vids=[9, 4] if q else [9, 4, 12])
    elif prop == "C10":
        cfgs = [{"decl": [["a", 1]], "mws": mw, "retry": r_on, "nk": 1}, {"decl": [], "mws": mw[:1], "retry": r_lbl, "nk": 1},
                {"decl": [], "mws": [], "nk": 1}]
        params = dict(max_ops=5 if q else 7, wl_names=["a"], wl_vids=[9])
    else:
        cfgs = [{"decl": [["max_retries", 20 + m], ["retry_on_error", f]], "retry": {**r_lbl, "nores": nr}, "nk": 1}
                for m in ((0, 1, 3) if q else range(0, 7)) for f in (7, 27, 8) for nr in (True, False)]
        cfgs += [{"decl": [], "retry": {"on": True, "defcount": d, "deflabel": True, "nores": True}, "nk": 1} for d in ((2,) if q else (0, 1, 2, 4))]
        params = dict(max_ops=6 if q else 7, wl_names=["a"], wl_vids=[9])
    return [_norm(c) for c in cfgs], params


def families(prop: str, tier: str, seed: int) -> List[Dict[str, Any]]:
    k = 1 if tier == "quick" else 10
    g = cl_gen
    if prop == "C09":
        s = list(g.gen_values_enum()) + g.gen_hist(seed, 700 * k)
        leak = list(g.gen_leak_enum())
        s += leak if tier != "quick" else leak[::7]
    elif prop == "C10":
        se = list(g.gen_send_enum())
        s = (se if tier != "quick" else se[::3]) + g.gen_hist(seed, 400 * k)
    else:
        pc = list(g.gen_retry_percall())
        s = list(g.gen_retry_enum()) + (pc if tier != "quick" else pc[::3]) + g.gen_hist(seed, 500 * k)
    return s


def sim_scenarios(prop: str, seed: int, num: int, sw: Dict[str, bool]) -> List[Dict[str, Any]]:
    cfgs, params = mc_cfgs(prop, "quick")
    text = "INIT SimInit\nNEXT SimNext\n" + const_text(sw, 10, params["wl_names"], params["wl_vids"], ["any"], cfgs="Cfgs = {}") + \
           "  SimDepth = 11\nINVARIANT Dump\nCHECK_DEADLOCK FALSE\n"
    out = []
    for cid, elog in mbt.simulate("Sim_Cl", cfgs, text, num=num, depth=11, seed=seed):
        ops: List[Any] = []
        for e in elog:
            if e["e"] == "newk":
                ops.append(["newk", e["k"]])
            elif e["e"] == "wl":
                ops.append(["wl", e["k"], e["n"], e["v"]])
            elif e["e"] == "wtid":
                ops.append(["wtid", e["k"], e["x"]])
            elif e["e"] == "wbr":
                ops.append(["wbr", e["k"]])
            elif e["e"] == "kiq":
                ops.append(["tkiq", not e["ok"]] if e["k"] == 0 else ["kiq", e["k"], not e["ok"]])
            elif e["e"] == "run":
                ops.append(["run", e["j"], e["s"]])
        c = cfgs[cid - 1]
        cfg = {"decl": [[d["n"], d["v"]] for d in c["decl"]], "ser": c["ser"], "mws": c["mws"], "retry": c["retry"], "nk": c["nk"]}
        out.append({"cfg": cfg, "ops": ops, "family": "tlc_simulate"})
    return out


def _nontrivial(prop: str, tr: Dict[str, Any]) -> bool:
    names = [e["e"] for e in tr["ev"]]
    if prop == "C09":
        return ("wl" in names and names.count("kick") >= 2) or any(e["e"] == "run" and e["s"] in ("fail", "requeue") for e in tr["ev"])
    if prop == "C10":
        return "presend" in names or "postsend" in names or any(e["e"] == "kick" and not e["ok"] for e in tr["ev"])
    return any(e["e"] == "run" and e["s"] == "fail" for e in tr["ev"])


ASSUMPTIONS = [
    "real AsyncTaskiqDecoratedTask / AsyncKicker / Receiver.callback / SimpleRetryMiddleware / Context.requeue from /repo's working tree; broker, result backend and observation middleware are recorders",
    "label values come from a pool of 40 concrete values (extreme ints, non-finite floats, -0.0, denormals, empty / non-UTF-8 bytes, unicode incl. NUL and a lone surrogate); observed values are mapped back to pool ids by exact type and bit pattern",
    "every message goes through a real formatter.dumps / loads cycle (JSON and pickle serializers)",
]


def run_check(prop: str, tier: str, rx_part: Any = None) -> int:
    rep = common.Reporter(prop)
    t0 = time.time()
    seed = common.seed()
    sw = switches()
    # ---- design-level model checking
    cfgs, params = mc_cfgs(prop, tier)
    text = "SPECIFICATION Spec\n" + const_text(sw, params["max_ops"], params["wl_names"], params["wl_vids"], []) + \
           "INVARIANT NoViolation\nINVARIANT DeclStable\nINVARIANT AttemptBound\nCHECK_DEADLOCK FALSE\n"
    r = mbt.mc("MC_Cl", cfgs, text, timeout=1500 if tier == "quick" else 7000)
    model_findings: List[str] = []
    if r.get("invariant_violated") and "distinct" in r:
        model_findings = r["invariant_violated"]
        rep.info("MODEL-FINDING: the model configured like the tree violates %s" % model_findings)
    elif not r.get("ok_finished") or "distinct" not in r:
        common.die_machinery(prop, "TLC failed:\n" + r["out"][-2500:])
    states, transitions = r["distinct"], r["generated"]
    rep.info(f"model checking: {states} distinct states, {transitions} transitions")
    # ---- scenarios
    scns = families(prop, tier, seed)
    scns += sim_scenarios(prop, seed + 1, 200 if tier == "quick" else 3000, sw)
    traces = drive(scns)
    verdicts = mbt.observe(traces, "ObsClient", shards=8 if tier == "quick" else 16)
    viol_n = 0
    for i, v in enumerate(verdicts):
        for clause, idx in v.items():
            if not clause.startswith(prop + "_"):
                continue
            viol_n += 1
            if viol_n <= 5:
                path = common.save_replay(prop, {"kind": "cl", "property": prop, "clause": clause, "event_index": idx,
                                                 "scenario": {"cfg": scns[i]["cfg"], "ops": scns[i]["ops"]}})
                rep.violation(path, f"clause {clause} false after event {idx} of {len(traces[i]['ev'])} (family {scns[i].get('family')})")
    # ---- conformance
    ncf = 300 if tier == "quick" else 4000
    step = max(1, len(traces) // ncf)
    idxs = [i for i in range(0, len(traces), step) if not any(o[-1] == "failk" or o[0] in ("rerun", "kiqbad", "skiq") for o in scns[i]["ops"])][:ncf]   # refused re-sends, redelivery: not modelled
    ctext = "SPECIFICATION TraceSpec\n" + const_text(sw, 1000, [], [], [], cfgs="Cfgs = {}") + \
            "INVARIANT Progress\nPOSTCONDITION Done\nCHECK_DEADLOCK FALSE\n"
    try:
        cf = mbt.conform([traces[i] for i in idxs], "TraceClient", ctext)
    except tlc.TLCError as exc:
        if not rep.violations:
            raise
        rep.info('conformance run failed after violations were found: ' + str(exc)[:300])
        cf = []
    accepted = sum(1 for a, b_ in cf if a == b_)
    for (a, b_), i in zip(cf, idxs):
        if a != b_:
            rep.divergence(f"trace of family {scns[i].get('family')} not explained by the model beyond event {a - 1} of {b_ - 1}")
    # ---- evidence
    canon = set()
    nontriv = 0
    for tr in traces:
        h = hashlib.sha1(json.dumps([tr["cfg"]["decl"], tr["cfg"]["mws"], tr["cfg"]["retry"], tr["cfg"]["ser"], tr["ev"]],
                                    sort_keys=True).encode()).hexdigest()
        if h not in canon:
            canon.add(h)
            nontriv += 1 if _nontrivial(prop, tr) else 0
    fam: Dict[str, int] = {}
    for s in scns:
        fam[s.get("family", "?")] = fam.get(s.get("family", "?"), 0) + 1
    samples = [{"scenario": {"cfg": scns[i]["cfg"], "ops": scns[i]["ops"]},
                "trace_head": [{k: v for k, v in e.items() if v not in ("", 0, [], True) or k == "e"} for e in traces[i]["ev"][:14]],
                "clauses_false": verdicts[i]} for i in (0, len(scns) // 2, len(scns) - 1)]
    coverage = {
        "states": states, "transitions": transitions, "traces_validated_against_impl": len(traces), "samples": samples,
        "evaluations": len(traces), "distinct_nontrivial": nontriv,
        "rule": "scenario = task declaration + middleware/retry configuration + history of kicker()/with_labels()/with_task_id()/with_broker()/kiq() "
                "calls and worker executions (ok/fail/no-result/requeue); distinct by (configuration, recorded events); non-trivial per property "
                "(engine/cl_check.py:_nontrivial)",
        "events_checked": sum(len(t["ev"]) for t in traces), "families": fam,
        "model_conformance": {"checked": len(cf), "accepted": accepted}, "model_switches": sw,
        "checker_cmd": "tlc ObsClient (verdict) / TraceClient (conformance) / MC_Cl (design)", "exhaustive": False,
    }
    extra_viol = 0
    assumptions = list(ASSUMPTIONS)
    if rx_part is not None:
        rc = rx_part["coverage"]
        coverage["send_side"] = {k: coverage[k] for k in ("states", "transitions", "traces_validated_against_impl", "evaluations",
                                                           "distinct_nontrivial", "events_checked", "families", "model_conformance")}
        coverage["execution_side"] = {k: rc[k] for k in ("states", "transitions", "traces_validated_against_impl", "evaluations",
                                                          "distinct_nontrivial", "events_checked", "families", "model_conformance", "mc_runs")}
        for k in ("states", "transitions", "traces_validated_against_impl", "evaluations", "distinct_nontrivial", "events_checked"):
            coverage[k] = coverage[k] + rc[k]
        coverage["samples"] = coverage["samples"][:2] + rc["samples"][:2]
        extra_viol = rx_part["violations"]
        assumptions += rx_part["assumptions"]
    common.write_evidence(prop, tier, coverage, assumptions, time.time() - t0, viol_n + extra_viol)
    rep.info(f"{len(traces)} real histories, {coverage['events_checked']} events judged, {viol_n} violations, "
             f"conformance {accepted}/{len(cf)}, {time.time() - t0:.0f}s")
    if model_findings and not rep.violations:
        common.die_machinery(prop, "the model (configured like the tree) fails %s but no real execution does" % model_findings)
    return rep.exit_code()


def replay(prop: str, path: str) -> int:
    with open(path) as f:
        doc = json.load(f)
    traces = drive([doc["scenario"]])
    v = mbt.observe(traces, "ObsClient", shards=1)[0]
    for i, e in enumerate(traces[0]["ev"], 1):
        print(i, {k: x for k, x in e.items() if x not in ("", 0, [], True) or k == "e"})
    print("clauses false:", v)
    if any(c.startswith(prop + "_") for c in v):
        print(f"VIOLATION property={prop} replay={path}")
        return 1
    return 0

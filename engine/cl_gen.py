"""Scenario families for the client driver (C09, C10 send side, C11)."""
from __future__ import annotations

import itertools
import random
from typing import Any, Dict, Iterator, List

USER = ["a", "b", "_c"]
POOL = [1, 2, 3, 4, 5, 6, 7, 8, 9, 10, 11, 12, 13, 14, 15, 16, 17, 18, 19, 20, 21, 27, 28, 40, 41, 42, 43, 44, 46, 47, 45, 51]
MODES = ["ok", "fail", "fail", "failb", "nores", "requeue"]


def _mws(rng: random.Random) -> List[Dict[str, Any]]:
    out = []
    for _ in range(rng.randint(0, 3)):
        out.append({"pre": rng.choice(["", "sync", "async"]), "post": rng.choice(["", "sync", "async"]),
                    "replace": rng.random() < 0.4})
    return out


def _retry(rng: random.Random) -> Dict[str, Any]:
    return {"on": rng.random() < 0.6, "defcount": rng.randint(0, 4), "deflabel": rng.random() < 0.5, "nores": rng.random() < 0.5}


def gen_hist(seed: int, n: int) -> List[Dict[str, Any]]:
    rng = random.Random(("clhist", seed).__repr__())
    out = []
    for _ in range(n):
        decl = [[nm, rng.choice(POOL)] for nm in USER if rng.random() < 0.5]
        if rng.random() < 0.4:
            decl.append(["max_retries", 20 + rng.randint(0, 6)])
        if rng.random() < 0.5:
            decl.append(["retry_on_error", rng.choice([7, 8, 27, 28, 10])])
        if rng.random() < 0.25:
            decl.append(["timeout", rng.choice([48, 49, 50])])      # int / str / float seconds
        cfg = {"decl": decl, "ser": rng.choice(["json", "pickle"]), "mws": _mws(rng), "retry": _retry(rng), "shared": rng.random() < 0.3}
        ops: List[Any] = []
        sent = 0
        for _ in range(rng.randint(2, 12)):
            r = rng.random()
            k = rng.randint(1, 3)
            if r < 0.15:
                ops.append(["newk", k])
            elif r < 0.4:
                ops.append(["wl", k, rng.choice(USER + ["max_retries", "retry_on_error"] if rng.random() < 0.15 else USER), rng.choice(POOL)])
                if ops[-1][2] == "max_retries":
                    ops[-1][3] = 20 + rng.randint(0, 6)
                if ops[-1][2] == "retry_on_error":
                    ops[-1][3] = rng.choice([7, 8, 27, 28])
            elif r < 0.47:
                ops.append(["wtid", k, rng.randint(1, 5)])
            elif r < 0.52:
                ops.append(["wbr", k])
            elif r < 0.68:
                ops.append(["kiq", k, rng.random() < 0.15])
                sent += 1
            elif r < 0.8:
                ops.append(["tkiq", rng.random() < 0.15])
                sent += 1
            else:
                ops.append(rng.choice([["run_last", rng.choice(MODES)], ["run", rng.randint(1, max(1, sent + 2)), rng.choice(MODES)]]))
        for _ in range(rng.randint(0, 5)):
            ops.append(["run_last", rng.choice(MODES)])
        if len(out) % 5 == 1:                    # a schedule created by a kicker and kicked by hand (CreatedSchedule.kiq)
            ops.insert(rng.randint(0, len(ops)), ["skiq", rng.randint(1, 3)])
        if len(out) % 6 == 4:                    # a send whose argument cannot be serialised
            ops.insert(rng.randint(0, len(ops)), ["kiqbad", rng.randint(1, 3)])
        if len(out) % 3 == 1:                    # at-least-once delivery: some message is handed to the worker a second time
            ran = [o for o in ops if o[0] == "run"]
            if ran:
                o = rng.choice(ran)
                ops.append(["rerun", o[1], rng.choice(MODES)])
        if len(out) % 5 == 3:                    # the broker refuses the re-send of a failed attempt
            ops = [(o[:-1] + ["failk"]) if o[0] in ("run", "run_last") and o[-1] == "fail" else o for o in ops]
        cfg["noparse"] = len(out) % 4 == 1       # worker started with --no-parse
        cfg["noprop"] = len(out) % 4 == 2        # worker started with --no-propagate-errors
        out.append({"cfg": cfg, "ops": ops, "family": "hist"})
    return out


def gen_leak_enum() -> Iterator[Dict[str, Any]]:
    """C09 second half: all call histories of <= 4 customisation calls on 2 kickers, then plain sends."""
    calls = [["newk", 1], ["newk", 2], ["wl", 1, "a", 9], ["wl", 2, "b", 3], ["wl", 1, "b", 7], ["wtid", 1, 4], ["wbr", 2],
             ["kiq", 1, False], ["kiq", 2, False], ["tkiq", False]]
    for L in range(1, 5):
        for seq in itertools.product(range(len(calls)), repeat=L):
            if 0 not in seq and 1 not in seq:
                continue
            ops = [calls[i] for i in seq] + [["tkiq", False], ["run_last", "ok"]]
            yield {"cfg": {"decl": [["a", 1]] if (len(seq) + seq[0]) % 2 else [], "ser": "json", "shared": (len(seq) + seq[-1]) % 3 == 0},
                   "ops": ops, "family": "leak_enum"}


def gen_values_enum() -> Iterator[Dict[str, Any]]:
    """C09 first half: every pool value x serializer x path (first delivery, retry, requeue, requeue twice)."""
    for tv, ser in itertools.product([48, 49, 50], ["json", "pickle"]):
        yield {"cfg": {"decl": [["timeout", tv], ["a", 9]], "ser": ser, "retry": {"on": True, "defcount": 3, "deflabel": True, "nores": False}},
               "ops": [["tkiq", False], ["run_last", "fail"], ["run_last", "requeue"], ["run_last", "ok"]], "family": "values_enum"}
    for v, ser, path in itertools.product(POOL, ["json", "pickle"], ["first", "retry", "requeue", "requeue2", "decl"]):
        retry = {"on": True, "defcount": 3, "deflabel": True, "nores": False}
        if path == "decl":
            yield {"cfg": {"decl": [["a", v], ["b", 9]], "ser": ser, "retry": retry}, "ops": [["tkiq", False], ["run_last", "fail"], ["run_last", "ok"]],
                   "family": "values_enum"}
            continue
        ops: List[Any] = [["newk", 1], ["wl", 1, "a", v], ["kiq", 1, False]]
        ops += {"first": [["run_last", "ok"]], "retry": [["run_last", "fail"], ["run_last", "fail"], ["run_last", "ok"]],
                "requeue": [["run_last", "requeue"], ["run_last", "ok"]],
                "requeue2": [["run_last", "requeue"], ["run_last", "requeue"], ["run_last", "fail"], ["run_last", "ok"]]}[path]
        yield {"cfg": {"decl": [["b", 9]], "ser": ser, "retry": retry}, "ops": ops, "family": "values_enum"}


def gen_retry_enum(maxlen: int = 7, maxes: List[int] = list(range(0, 7))) -> Iterator[Dict[str, Any]]:
    """C11: max_retries 0..6 as label or default x retry flag encodings x no_result_on_retry x outcome sequences."""
    for mx, as_label, flag, nores in itertools.product(maxes, [True, False], ["bool", "str", "default", "off", "stroff"], [True, False]):
        decl: List[Any] = []
        retry = {"on": True, "defcount": 3 if as_label else mx, "deflabel": flag == "default", "nores": nores}
        if as_label:
            decl.append(["max_retries", 20 + mx])
        if flag == "bool":
            decl.append(["retry_on_error", 7])
        elif flag == "str":
            decl.append(["retry_on_error", 27])
        elif flag == "off":
            decl.append(["retry_on_error", 8])
        elif flag == "stroff":
            decl.append(["retry_on_error", 28])
        L = min(maxlen, mx + 2)
        # outcome sequences: k failures followed by one of ok / nores / nothing
        for k in range(0, L + 1):
            for last in ("ok", "nores", "fail"):
                fm = "failb" if (k + mx) % 3 == 0 else "fail"
                ops: List[Any] = [["tkiq", False]] + [["run_last", fm]] * k + [["run_last", fm if last == "fail" else last]]
                yield {"cfg": {"decl": decl, "retry": retry, "ser": "json" if (k + mx) % 2 else "pickle"}, "ops": ops,
                       "family": "retry_enum"}


def gen_retry_percall() -> Iterator[Dict[str, Any]]:
    """C11: the bound / flag given per call (kicker labels) differs between two sends of the same task."""
    for a, b, flag_a, flag_b, nores in itertools.product(range(0, 6), range(0, 6), (7, 28, 0), (27, 8, 0), (True, False)):
        if a == b and flag_a == flag_b:
            continue
        ops: List[Any] = [["newk", 1], ["wl", 1, "max_retries", 20 + a]]
        if flag_a:
            ops.append(["wl", 1, "retry_on_error", flag_a])
        ops += [["kiq", 1, False]] + [["run_last", "fail"]] * (a + 2)
        ops += [["newk", 2], ["wl", 2, "max_retries", 20 + b]]
        if flag_b:
            ops.append(["wl", 2, "retry_on_error", flag_b])
        ops += [["kiq", 2, False]] + [["run_last", "fail"]] * (b + 2) + [["tkiq", False], ["run_last", "fail"], ["run_last", "fail"]]
        yield {"cfg": {"decl": [["a", 9]], "retry": {"on": True, "defcount": 2, "deflabel": True, "nores": nores}, "ser": "json"},
               "ops": ops, "family": "retry_percall"}


def gen_send_enum() -> Iterator[Dict[str, Any]]:
    """C10 send side: 0..3 middlewares x hook subsets x sync/async x replacing x kick ok/fail."""
    specs = [{"pre": p, "post": q, "replace": r} for p in ("", "sync", "async") for q in ("", "sync", "async") for r in (False, True)
             if not (r and not p)]
    for n in range(0, 4):
        combos = list(itertools.product(range(len(specs)), repeat=n))
        rng = random.Random(n)
        if len(combos) > 400:
            combos = rng.sample(combos, 400)
        for combo in combos:
            for fail in (False, True):
                yield {"cfg": {"decl": [["a", 1]], "mws": [specs[i] for i in combo],
                               "retry": {"on": True, "defcount": 2, "deflabel": True, "nores": True}},
                       "ops": [["tkiq", fail], ["newk", 1], ["kiq", 1, fail], ["run_last", "fail"], ["run_last", "requeue"], ["run_last", "ok"]],
                       "family": "send_enum"}

"""Checks C19 (exception round trips) and C20 (safe loading of stored errors)."""
from __future__ import annotations

import itertools
import json
import os
import random
import sys
import time
from typing import Any, Dict, Iterator, List

ROOT = os.path.dirname(os.path.dirname(os.path.abspath(__file__)))
sys.path.insert(0, ROOT)
from engine import common, mbt, tlc  # noqa: E402

CKINDS = ["builtin", "builtin2", "module", "nested", "baseonly", "custominit", "kwonly", "mid", "local", "dynamic", "eqhash", "dcerr", "attr", "local_shadow"]
AKINDS = ["none", "json", "picklable", "unpicklable", "socket", "unreprable", "mixed", "const", "loadfail", "localscalar", "nocopy", "surrogate"]
ENCS = ["json", "dict", "pickle"]
FOREIGN = ["func", "cls", "inst", "module", "nested_cls", "nested_func", "os_system", "eval", "object",
           "own_func", "own_cls", "own_factory", "own_exc_mod_func", "wrapped_func", "exc_method", "exc_inner_cls", "partial_inst", "own_pkg_cls", "own_pkg_func"]
GOOD = ["exc", "nested_exc", "builtin_exc", "baseonly", "custominit", "sub_exc", "mixed"]
SYNTH = ["state_walk", "nomodule_issubclass", "nomodule_isinstance", "missing_attr", "missing_nested", "deep_missing", "lazy", "lazy_sub", "cold_pkg", "nomod",
         "nomodule_field", "nomodule_dotted", "nomodule_builtin_name", "unimportable", "emptymod", "relmod"]


def _drive_batch(scn: Dict[str, Any]) -> Dict[str, Any]:
    from harness import exc_driver
    return exc_driver.run_batch(scn)


# ---------------------------------------------------------------- C19 cases
def gen_graphs_enum(n: int) -> Iterator[List[Dict[str, Any]]]:
    """Every cause/context/suppress combination over n nodes (incl. self-loops, cycles, diamonds)."""
    per = list(itertools.product(range(0, n + 1), range(0, n + 1), (False, True)))
    for combo in itertools.product(per, repeat=n):
        yield [{"cause": c, "context": x, "sup": s} for (c, x, s) in combo]


def gen_c19(seed: int, tier: str) -> List[Dict[str, Any]]:
    rng = random.Random(("c19", seed).__repr__())
    q = tier == "quick"
    cases = []
    # (a) all link shapes over 1..2 (quick) / 3 (thorough) nodes, class/arg kinds rotating
    for n in ((1, 2) if q else (1, 2, 3)):
        shapes = list(gen_graphs_enum(n))
        if n == 3:
            rng.shuffle(shapes)
            shapes = shapes[:6000]
        for k, shape in enumerate(shapes):
            g = [dict(nd, c=CKINDS[(k + i * 3) % len(CKINDS)], a=AKINDS[(k // 2 + i) % len(AKINDS)]) for i, nd in enumerate(shape)]
            for enc in (ENCS if n < 3 else [ENCS[k % 3]]):
                cases.append({"g": g, "enc": enc, "root": 1 + (k % n)})
    # (b) every class kind x argument kind x encoding on a single node and under a cause
    for c, a, enc in itertools.product(CKINDS, AKINDS, ENCS):
        cases.append({"g": [{"c": c, "a": a, "cause": 0, "context": 0, "sup": False}], "enc": enc, "root": 1})
        cases.append({"g": [{"c": "module", "a": "json", "cause": 2, "context": 0, "sup": True}, {"c": c, "a": a, "cause": 0, "context": 0, "sup": False}],
                      "enc": enc, "root": 1})
    # (b2) equal-valued but distinct exception objects linked to each other (value equality must not be taken for identity)
    for c, enc in itertools.product(["eqhash", "dcerr", "module", "builtin"], ENCS):
        for shape in ([(2, 0), (0, 0)], [(2, 0), (3, 0), (0, 0)], [(0, 2), (0, 1)], [(2, 3), (3, 0), (0, 1)]):
            cases.append({"g": [{"c": c, "a": "const", "cause": x, "context": y, "sup": False} for (x, y) in shape], "enc": enc, "root": 1})
    # (c) random graphs up to 4 nodes and chains up to depth 6
    for _ in range(600 if q else 12000):
        n = rng.randint(2, 4)
        g = [{"c": rng.choice(CKINDS), "a": rng.choice(AKINDS), "cause": rng.randint(0, n), "context": rng.randint(0, n), "sup": rng.random() < 0.4}
             for _ in range(n)]
        cases.append({"g": g, "enc": rng.choice(ENCS), "root": rng.randint(1, n)})
    for _ in range(60 if q else 1500):
        n = rng.randint(5, 8)
        g = []
        for i in range(1, n + 1):
            link = i + 1 if i < n else rng.choice([0, 1, rng.randint(1, n)])
            use_cause = rng.random() < 0.5
            g.append({"c": rng.choice(CKINDS), "a": rng.choice(AKINDS), "cause": link if use_cause else 0, "context": 0 if use_cause else link,
                      "sup": use_cause and rng.random() < 0.5})
        cases.append({"g": g, "enc": rng.choice(ENCS), "root": 1})
    return cases


# ---------------------------------------------------------------- C20 cases
def gen_c20(seed: int, tier: str) -> List[Dict[str, Any]]:
    rng = random.Random(("c20", seed).__repr__())
    allk = GOOD + FOREIGN + SYNTH
    cases = []
    for t, a, entry in itertools.product(allk, ("none", "one", "two", "big"), ("direct", "validate", "json")):
        cases.append({"p": {"t": t, "a": a}, "entry": entry})
    # nesting: a payload of every kind as cause / context / two levels deep under a good or synthetic top
    for top in ("exc", "missing_attr", "nomodule_field", "custominit"):
        for t in allk:
            for pos in ("cause", "context"):
                for entry in ("validate", "json"):
                    cases.append({"p": {"t": top, pos: {"t": t}}, "entry": entry})
                    cases.append({"p": {"t": top, pos: {"t": "exc", ("context" if pos == "cause" else "cause"): {"t": t, "a": "two"}}}, "entry": entry})
    for entry in ("direct", "validate", "json"):
        cases.append({"p": {"t": "lazy", "a": "one"}, "entry": entry, "then_import": True})
        for raw in ("raw_str", "raw_list", "raw_num"):
            cases.append({"p": {"t": raw, "a": "none"}, "entry": entry})
            cases.append({"p": {"t": "exc", "a": "one", "cause": {"t": raw, "a": "none"}}, "entry": entry})
    for t in allk:
        if not t.startswith("nomodule_"):
            cases.append({"p": {"t": t, "a": "one"}, "entry": "validate", "wrap": True})
    for _ in range(300 if tier == "quick" else 8000):
        def rnd(d: int) -> Dict[str, Any]:
            p: Dict[str, Any] = {"t": rng.choice(allk), "a": rng.choice(["none", "one", "two"]), "sup": rng.random() < 0.3}
            if d < 3 and rng.random() < 0.5:
                p["cause"] = rnd(d + 1)
            if d < 3 and rng.random() < 0.4:
                p["context"] = rnd(d + 1)
            return p
        cases.append({"p": rnd(0), "entry": rng.choice(["direct", "validate", "json"])})
    return cases


def run_check(prop: str, tier: str) -> int:
    rep = common.Reporter(prop)
    t0 = time.time()
    seed = common.seed()
    q = tier == "quick"
    text = "SPECIFICATION Spec\nCONSTANT N = 3\nINVARIANT UnfoldOK\nCHECK_DEADLOCK FALSE\n"
    r = tlc.run_tlc("MC_Exc", cfg_text=text, workers=16, timeout=1500)
    if not r.get("ok_finished") or "distinct" not in r:
        common.die_machinery(prop, "MC_Exc failed:\n" + r["out"][-2000:])
    states, transitions = r["distinct"], r["generated"]
    kind = "c19" if prop == "C19" else "c20"
    cases = gen_c19(seed, tier) if prop == "C19" else gen_c20(seed, tier)
    scns = [{"kind": kind, "cases": cases[i:i + 300]} for i in range(0, len(cases), 300)]
    if prop == "C19":
        # the class becomes importable between two loads of the same stored error: the second load must give the real class
        scns.append({"kind": "c20", "cases": [{"p": {"t": "lazy", "a": "one"}, "entry": e, "then_import": True} for e in ("direct", "validate", "json")]})
    traces = mbt.drive("engine.exc_check", "_drive_batch", scns)
    verdicts = mbt.observe(traces, "ObsExc", shards=12, per_shard_min=1)
    viol_n = 0
    for i, v in enumerate(verdicts):
        for clause, idx in v.items():
            if not clause.startswith(prop + "_"):
                continue
            viol_n += 1
            if viol_n <= 5:
                case = scns[i]["cases"][idx - 1]
                path = common.save_replay(prop, {"kind": kind, "property": prop, "clause": clause, "scenario": {"kind": kind, "cases": [case]}})
                ev = traces[i]["ev"][idx - 1]
                rep.violation(path, f"clause {clause}: {json.dumps(case)[:300]} -> res={ev.get('res')} {json.dumps(ev.get('tree', ev.get('cls_kind')))[:300]}")
    n = sum(len(t["ev"]) for t in traces)
    if prop == "C19":
        nontriv = len({json.dumps([e["g"], e["enc"], e["root"]], sort_keys=True) for t in traces for e in t["ev"]
                       if e["e"] == "rt" and any(nd["cause"] or nd["context"] for nd in e["g"])})
    else:
        nontriv = len({json.dumps([e["p"], e["entry"]], sort_keys=True) for t in traces for e in t["ev"] if e["p"]["k"] != "exc" or
                       e["p"].get("cause", {}).get("k", "nil") != "nil" or e["p"].get("context", {}).get("k", "nil") != "nil"})
    samples = [{"case": scns[i]["cases"][j], "observed": {k: v for k, v in traces[i]["ev"][j].items() if k in ("res", "cls_kind", "called", "imported", "tree")}}
               for i, j in ((0, 0), (len(scns) // 2, 3), (len(scns) - 1, 0)) if j < len(scns[i]["cases"])]
    coverage = {
        "states": states, "transitions": transitions, "traces_validated_against_impl": n, "samples": samples,
        "evaluations": n, "distinct_nontrivial": nontriv,
        "rule": ("C19: case = exception graph (nodes with class kind x argument kind, cause/context/suppress links incl. self-loops, cycles, shared nodes) "
                 "x encoding (JSON text, JSON dict, pickle) x root; built as real exception objects, round-tripped through a real TaskiqResult, the decoded "
                 "object projected back and compared by TLC with the unfolding the spec prescribes; non-trivial = the graph has links"
                 if prop == "C19" else
                 "C20: case = (module, dotted type name, args, nested cause/context) resolving in a fixture world to exception classes, functions, builtins, "
                 "non-exception classes, instances, modules, recording traps, unloaded/nonexistent modules or nothing x entry point (exception_to_python, "
                 "model_validate, model_validate_json); non-trivial = anything but a plain resolvable exception"),
        "checker_cmd": "tlc ObsExc (verdict per recorded case) / MC_Exc (all cause/context/suppress graphs over 3 nodes: unfolding finite, depth <= 3)",
        "exhaustive": False,
    }
    common.write_evidence(prop, tier, coverage, [
        "real taskiq.serialization / TaskiqResult (pydantic v2) from /repo's working tree",
        "C19 domain: classes whose instances are truthy and whose args property does not raise; str arguments are valid unicode (no lone surrogates); "
        "class names that resolve to the class in their own module",
        "C20: trap objects are plain attributes of a module planted in sys.modules (no module-level __getattr__, no descriptors); pickle payloads are out of scope (pickle.loads is unsafe by definition)",
        "value-level fidelity of arguments inside a class is sampled (fixed pools), not enumerated",
    ], time.time() - t0, viol_n)
    rep.info(f"{n} real cases judged, {viol_n} violations, {time.time() - t0:.0f}s")
    return rep.exit_code()


def replay(prop: str, path: str) -> int:
    with open(path) as f:
        doc = json.load(f)
    traces = mbt.drive("engine.exc_check", "_drive_batch", [doc["scenario"]])
    v = mbt.observe(traces, "ObsExc", shards=1, per_shard_min=1)[0]
    print(json.dumps(traces[0]["ev"][0], indent=1)[:3000])
    print("clauses false:", v)
    if any(c.startswith(prop + "_") for c in v):
        print(f"VIOLATION property={prop} replay={path}")
        return 1
    return 0

"""Thin TLC runner: runs tla2tools, parses the numbers and findings we need."""
from __future__ import annotations

import os
import re
import shutil
import subprocess
import tempfile
import time
from typing import Any, Dict, List, Optional

JAR = "/opt/veriftools/tla/tla2tools.jar:/opt/veriftools/tla/CommunityModules-deps.jar"
SPEC_DIR = os.path.join(os.path.dirname(os.path.dirname(os.path.abspath(__file__))), "spec")


class TLCError(RuntimeError):
    pass


def _sweep_stale() -> None:
    """Remove scratch directories left behind by runs whose process was killed (disk is limited)."""
    tmp = tempfile.gettempdir()
    try:
        names = os.listdir(tmp)
    except OSError:
        return
    for n in names:
        m = re.match(r"verif-[a-z]+-(\d+)-", n)
        if m and not os.path.exists("/proc/" + m.group(1)):
            shutil.rmtree(os.path.join(tmp, n), ignore_errors=True)


def scratch_dir(kind: str) -> str:
    """A fresh scratch directory named after the owning process, so that leftovers of killed runs can be swept."""
    _sweep_stale()
    return tempfile.mkdtemp(prefix="verif-%s-%d-" % (kind, os.getpid()))


def run_tlc(
    module: str,
    cfg_text: Optional[str] = None,
    cfg_file: Optional[str] = None,
    workers: int = 16,
    env: Optional[Dict[str, str]] = None,
    extra: Optional[List[str]] = None,
    timeout: int = 3600,
    java_opts: Optional[List[str]] = None,
    heap: str = "8g",
) -> Dict[str, Any]:
    """Run TLC on spec/<module>.tla with the given config text (or file)."""
    scratch = scratch_dir("tlc")
    try:
        if cfg_text is not None:
            cfg_path = os.path.join(scratch, module + ".cfg")
            with open(cfg_path, "w") as f:
                f.write(cfg_text)
        else:
            cfg_path = os.path.join(SPEC_DIR, cfg_file or (module + ".cfg"))
        cmd = ["java", "-XX:+UseParallelGC", f"-Xmx{heap}", "-Djava.io.tmpdir=" + scratch] + (java_opts or []) + [
            "-cp", JAR, "tlc2.TLC", "-workers", str(workers), "-metadir", os.path.join(scratch, "meta"),
            "-noGenerateSpecTE", "-config", cfg_path,
        ] + (extra or []) + [os.path.join(SPEC_DIR, module + ".tla")]
        e = dict(os.environ)
        e.pop("JAVA_TOOL_OPTIONS", None)
        if env:
            e.update(env)
        t0 = time.time()
        try:
            p = subprocess.run(cmd, cwd=SPEC_DIR, env=e, capture_output=True, text=True, timeout=timeout)
        except subprocess.TimeoutExpired as exc:
            raise TLCError(f"TLC timed out after {timeout}s on {module}") from exc
        out = p.stdout + "\n" + p.stderr
        res: Dict[str, Any] = {"rc": p.returncode, "out": out, "wall_s": time.time() - t0, "cmd": " ".join(cmd)}
        m = re.search(r"(\d+) states generated, (\d+) distinct states found, (\d+) states left", out)
        if m:
            res["generated"], res["distinct"], res["left"] = int(m.group(1)), int(m.group(2)), int(m.group(3))
        m = re.search(r"The depth of the complete state graph search is (\d+)", out)
        if m:
            res["depth"] = int(m.group(1))
        res["invariant_violated"] = re.findall(r"Invariant (\w+) is violated", out)
        res["property_violated"] = re.findall(r"Temporal properties were violated|property (\w+) is violated", out)
        res["deadlock"] = "Deadlock reached" in out
        res["ok_finished"] = "Model checking completed. No error has been found." in out or (
            "Finished in" in out and not res["invariant_violated"] and "Error:" not in out
        )
        return res
    finally:
        shutil.rmtree(scratch, ignore_errors=True)


def parse_tla_value(text: str) -> Any:
    """Parse a printed TLA+ value (sets, tuples, records, strings, ints, booleans)."""
    pos = 0
    n = len(text)

    def ws() -> None:
        nonlocal pos
        while pos < n and text[pos] in " \t\r\n":
            pos += 1

    def val() -> Any:
        nonlocal pos
        ws()
        if text.startswith("<<", pos):
            pos += 2
            items = []
            ws()
            while not text.startswith(">>", pos):
                items.append(val())
                ws()
                if text[pos] == ",":
                    pos += 1
                ws()
            pos += 2
            return items
        if text[pos] == "{":
            pos += 1
            items = []
            ws()
            while text[pos] != "}":
                items.append(val())
                ws()
                if text[pos] == ",":
                    pos += 1
                ws()
            pos += 1
            return {"__set__": items}
        if text[pos] == "[":
            pos += 1
            rec = {}
            ws()
            while text[pos] != "]":
                m = re.match(r"\w+", text[pos:])
                key = m.group(0)
                pos += len(key)
                ws()
                assert text.startswith("|->", pos), text[pos:pos + 20]
                pos += 3
                rec[key] = val()
                ws()
                if text[pos] == ",":
                    pos += 1
                ws()
            pos += 1
            return rec
        if text[pos] == '"':
            end = pos + 1
            while text[end] != '"':
                if text[end] == "\\":
                    end += 1
                end += 1
            s = text[pos + 1:end]
            pos = end + 1
            return s
        m = re.match(r"-?\d+", text[pos:])
        if m:
            pos += len(m.group(0))
            return int(m.group(0))
        m = re.match(r"TRUE|FALSE", text[pos:])
        if m:
            pos += len(m.group(0))
            return m.group(0) == "TRUE"
        raise ValueError(f"cannot parse TLA value at {text[pos:pos + 40]!r}")

    v = val()
    return v


def extract_printed(out: str, tag: str) -> List[Any]:
    """All values printed by PrintT(<<tag, ...>>), parsed (bracket matching)."""
    res = []
    pat = re.compile(r'<<\s*"' + re.escape(tag) + '"')
    i = 0
    while True:
        mm = pat.search(out, i)
        if not mm:
            break
        j = mm.start()
        depth = 0
        k = j
        instr = False
        while k < len(out):
            if instr:
                if out[k] == "\\":
                    k += 1
                elif out[k] == '"':
                    instr = False
            elif out[k] == '"':
                instr = True
            elif out.startswith("<<", k):
                depth += 1
                k += 1
            elif out.startswith(">>", k):
                depth -= 1
                k += 1
                if depth == 0:
                    break
            k += 1
        res.append(parse_tla_value(out[j:k + 1]))
        i = k + 1
    return res

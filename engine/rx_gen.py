"""Scenario families for the receiver harness (C01-C07, C10 exec side, C12).

Every generator is a pure function of (seed, size): scenarios are JSON and the
driver is deterministic, so a saved scenario replays exactly.
"""
from __future__ import annotations

import itertools
import random
from typing import Any, Dict, Iterator, List

Scn = Dict[str, Any]

EPILOGUE_CLEAN = [["gate_all"], ["fin_all", "ret"], ["gate_all"], ["stop"], ["adv_rel", 8]]


def _msgs(rng: random.Random, n: int, kinds: List[str], tasks: List[str], instant_p: float = 0.0,
          outcomes: List[str] = ["ret"], timeout_p: float = 0.0, savefail_p: float = 0.0,
          ackfail_p: float = 0.0, dup_p: float = 0.0) -> List[Dict[str, Any]]:
    out = []
    for _ in range(n):
        m: Dict[str, Any] = {"kind": rng.choice(kinds)}
        if m["kind"] == "valid":
            m["task"] = rng.choice(tasks)
            if m["task"] in ("ts", "ts0") or rng.random() < instant_p:
                m["body"] = "instant"
                m["outcome"] = rng.choice(outcomes)
            elif rng.random() < timeout_p:
                m["timeout"] = rng.choice([2, 5, 7])
                m["slowcancel"] = rng.random() < 0.4
            if rng.random() < savefail_p:
                m["savefail"] = True
            if rng.random() < ackfail_p:
                m["ackfail"] = True
            if out and rng.random() < dup_p:
                m["tid"] = rng.randint(1, len(out))      # carries the task id of an earlier message (redelivery / retry)
        out.append(m)
    return out


def _flow_steps(rng: random.Random, cfg: Dict[str, Any], length: int, outcomes: List[str],
                midflight: bool, stop_p: float = 0.12, adv_p: float = 0.2) -> List[Any]:
    steps: List[Any] = []
    M = len(cfg["msgs"])
    arrived = 0
    for _ in range(length):
        r = rng.random()
        us = "_" if (midflight and rng.random() < 0.5) else ""
        if r < 0.3 and arrived < M:
            n = rng.randint(1, min(3, M - arrived))
            arrived += n
            steps.append(["arrive" + us, n])
        elif r < 0.3 + stop_p:
            steps.append(["stop" + us])
        elif r < 0.3 + stop_p + adv_p:
            steps.append(rng.choice([["adv"], ["adv_rel", rng.choice([1, 2, 3, 4, 7])]]))
        elif r < 0.9:
            steps.append(["fin_any" + us, rng.randint(0, 5), rng.choice(outcomes)])
        else:
            steps.append(["gate_any" + us, rng.randint(0, 5)])
        if midflight and us and rng.random() < 0.7:
            steps.append(["step", rng.randint(1, 4)])
    if arrived < M and rng.random() < 0.7:
        steps.append(["arrive", M - arrived])
    return steps


def gen_flow(seed: int, n: int) -> List[Scn]:
    """C01/C03/C04/C05: flow control, kinds, limits, stop instants, drain timeouts."""
    rng = random.Random(("flow", seed).__repr__())
    out = []
    for k in range(n):
        A = rng.choice([0, 1, 1, 2, 2, 3, 4])
        P = rng.choice([0, 0, 1, 2, 3, 4])
        N = rng.choice([0, 0, 0, 1, 2, 3])
        W = rng.choice([-1, -1, 2, 5, 0])
        M = rng.randint(1, 8)
        cfg = {"A": A, "P": P, "N": N, "W": W, "ack": rng.choice(["default", "when_received", "when_executed"]),
               "ackable": rng.random() < 0.75,
               "msgs": _msgs(rng, M, ["valid"] * 7 + ["malformed", "unknown", "minus1", "empty"], ["ta0", "ta0", "ts0", "ta"],
                             instant_p=0.15, outcomes=["ret", "exc", "cerr"], timeout_p=0.1, ackfail_p=0.08)}
        steps = _flow_steps(rng, cfg, rng.randint(3, 14), ["ret", "ret", "exc", "nores", "cerr", "sysexit"], midflight=(k % 3 == 0))
        mode = rng.random()
        if mode < 0.55:
            steps += EPILOGUE_CLEAN
        elif mode < 0.8:   # never-ending tasks remain: stop and wait long
            steps += [["stop"], ["adv_rel", (W if W >= 0 else 5) + 3 + 3]]
        else:
            steps += [["adv_rel", 7]]
        out.append({"cfg": cfg, "steps": steps, "family": "flow"})
    return out


def gen_api(seed: int, n: int) -> List[Scn]:
    """The same worker built by the programmatic entry point taskiq.api.run_receiver_task (argument wiring)."""
    rng = random.Random(("api", seed).__repr__())
    out = []
    for _ in range(n):
        A = rng.choice([0, 1, 2, 3])
        P = rng.choice([0, 1, 2, 3])
        M = rng.randint(A + P + 1, A + P + 4)
        deps = _rand_deps(rng, 3, 0.3, 0.1) if rng.random() < 0.5 else []
        cfg = {"via": "api", "A": A, "P": P, "ack": rng.choice(["default", "when_received", "when_executed", "when_saved"]),
               "propagate": rng.random() < 0.5, "deps": deps,
               "msgs": _msgs(rng, M, ["valid"] * 8 + ["malformed", "unknown"], ["ta0", "ta"] if deps else ["ta0"], instant_p=0.2,
                             outcomes=["ret", "exc", "nores"], timeout_p=0.15, savefail_p=0.1)}
        steps: List[Any] = []
        left = M
        while left > 0:
            b = rng.randint(1, left)
            left -= b
            steps.append(["arrive", b])
            for _ in range(rng.randint(0, 3)):
                steps.append(rng.choice([["fin_any", rng.randint(0, 3), rng.choice(["ret", "exc"])], ["gate_any", rng.randint(0, 3)],
                                         ["adv_rel", rng.choice([1, 3, 4])]]))
        cfg["noparse"] = len(out) % 3 == 1           # worker started with parsing disabled (must stay so across restarts)
        faulty = rng.random() < 0.35
        if faulty:
            # the broker stream breaks (connection lost) while the worker is IDLE, up to A+1 times; run_receiver_task restarts
            # listening; afterwards the worker must still be able to run A messages at once (saturation probe)
            cfg["msgs"] = [{"kind": "valid", "task": "ta0"} for _ in range((A or 3) + P + 2)]
            cfg["deps"] = []
            k = rng.randint(1, (A or 1) + 1)
            steps = [["adv_rel", rng.choice([0, 1, 4])]] + [["stream_error"], ["adv_rel", rng.choice([0, 1, 3])]] * k
            steps += [["arrive", len(cfg["msgs"])], ["probe", 1]]
            out.append({"cfg": cfg, "steps": steps, "family": "api_entry_faulty", "noconf": True})
            continue
        steps += [["gate_all"], ["adv_rel", 8]]
        if rng.random() < 0.5:
            steps += [["fin_all", "ret"], ["gate_all"], ["adv_rel", 4]]
        out.append({"cfg": cfg, "steps": steps, "family": "api_entry"})
    return out


def gen_cli(seed: int, n: int) -> List[Scn]:
    """The same worker built the way the command line builds it: WorkerArgs.from_cli(argv) -> cli.worker.run.start_listen().

    Scenarios of the other families are re-run through that route (flag parsing, argument wiring, signal handler -> finish
    event); the clauses are judged against the configuration the command line ASKED for.
    """
    per = max(1, n // 5)
    out: List[Scn] = []
    for fam in (gen_flow(seed + 101, per), gen_stop_sweep(seed + 101, per), gen_saturation(seed + 101, per),
                gen_pipe(seed + 101, per), gen_deps(seed + 101, per)):
        for scn in fam:
            cfg = dict(scn["cfg"], via="cli", noparse=len(out) % 3 == 2)
            steps = list(scn["steps"])
            if cfg.get("W", -1) < 0 and any(st[0] in ("stop", "stop_") for st in steps):
                # no drain timeout was asked for: however long accepted tasks take, the worker keeps waiting for them
                steps += [["adv_rel", 70], ["adv_rel", 140]]
            out.append(dict(scn, cfg=cfg, steps=steps, family="cli_entry:" + str(scn.get("family"))))
    return out


def gen_inmem(seed: int, n: int) -> List[Scn]:
    """Hook / dependency / outcome scenarios through InMemoryBroker (its own Receiver wiring, kick() -> callback())."""
    out: List[Scn] = []
    for fam in (gen_pipe(seed + 211, n // 2), gen_deps(seed + 211, n - n // 2)):
        for k, scn in enumerate(fam):
            cfg = dict(scn["cfg"], via="inmem", A=0, P=0, N=0, W=-1, ackable=False, ack_async=False, inplace=k % 2 == 1,
                       noparse=k % 3 == 2)
            cfg.pop("ack_future", None)
            cfg["msgs"] = [dict(m, ackfail=False) for m in cfg["msgs"]]
            steps = [st for st in scn["steps"] if st[0] not in ("stop", "stop_")]
            out.append({"cfg": cfg, "steps": steps, "family": "inmem:" + str(scn.get("family")), "noconf": True})
    return out


def gen_saturation(seed: int, n: int) -> List[Scn]:
    """C04/C03: finite A, P; big backlog, slow tasks, idle poll storms, bursts."""
    rng = random.Random(("sat", seed).__repr__())
    out = []
    for _ in range(n):
        A = rng.randint(1, 4)
        P = rng.randint(0, 4)
        M = A + P + rng.randint(2, 5)
        stall = rng.random() < 0.35
        cfg = {"A": A, "P": P, "ackable": rng.random() < 0.8, "ack": ("default", "when_received", "when_executed", "when_saved")[len(out) % 4],
               "msgs": _msgs(rng, M, ["valid"] * 10 + ["malformed", "unknown", "empty", "minus1"], ["ta0"],
                             instant_p=0.8 if stall else 0.05, savefail_p=0.1)}
        if stall:
            if rng.random() < 0.5:
                cfg["backend_suspend"] = True
            else:
                cfg["mws"] = [{rng.choice(["post", "postsave", "onerr"]): "gate"}]
            cfg["ack_async"] = rng.random() < 0.5
            if not cfg["ack_async"] and cfg.get("ackable"):
                cfg["ack_future"] = True        # acknowledgements that take time keep their message unfinished (and its slot taken)
        steps: List[Any] = []
        if rng.random() < 0.5:
            steps.append(["adv_rel", rng.choice([3, 9, 31])])    # idle polling first
        left = M
        while left > 0:
            b = rng.randint(1, left)
            left -= b
            steps.append(["arrive", b])
            for _ in range(rng.randint(0, 3)):
                steps.append(rng.choice([["fin_any", rng.randint(0, 3), "ret"], ["adv_rel", rng.choice([1, 3, 4])],
                                         ["fin_any", 0, "exc"]]))
        steps += rng.choice([[], EPILOGUE_CLEAN, [["adv_rel", 10]]])
        out.append({"cfg": cfg, "steps": steps, "family": "saturation"})
    return out


def gen_probe(seed: int, n: int) -> List[Scn]:
    """C03: history of outcomes/faults, then a saturation probe."""
    rng = random.Random(("probe", seed).__repr__())
    out = []
    for _ in range(n):
        A = rng.choice([0, 1, 2, 3])
        P = rng.choice([0, 1, 2])
        H = rng.randint(1, 6)                 # history length
        probe_n = (A if A else 3) + P + 2
        hist = _msgs(rng, H, ["valid"] * 6 + ["malformed", "unknown", "empty", "minus1"], ["ta0", "ts0", "ta"], instant_p=0.4,
                     outcomes=["ret", "exc", "base", "nores", "cerr", "sysexit"], timeout_p=0.3, savefail_p=0.3, ackfail_p=0.25)
        msgs = hist + [{"kind": "valid", "task": "ta0"} for _ in range(probe_n)]
        mws = []
        if rng.random() < 0.5:
            mode = rng.choice(["pre", "onerr", "post", "postsave"])
            mws = [{mode: rng.choice(["raise", "sync", "async"])}]
        cfg = {"A": A, "P": P, "msgs": msgs, "mws": mws, "ack": rng.choice(["default", "when_received", "when_executed"]),
               "ackable": rng.random() < 0.8, "ack_async": rng.random() < 0.3}
        steps: List[Any] = []
        left = H
        while left > 0:
            b = rng.randint(1, left)
            left -= b
            steps.append(["arrive", b])
            for _ in range(rng.randint(0, 2)):
                steps.append(["fin_any", rng.randint(0, 3), rng.choice(["ret", "exc", "base", "nores"])])
        steps += [["fin_all", rng.choice(["ret", "exc"])], ["adv_rel", 8], ["fin_all", "ret"],
                  ["arrive", probe_n], ["probe", 1]]
        out.append({"cfg": cfg, "steps": steps, "family": "probe"})
    return out


def gen_pipe(seed: int, n: int) -> List[Scn]:
    """C02/C07/C10: ack types, outcomes, middleware stacks, backend failures."""
    rng = random.Random(("pipe", seed).__repr__())
    out = []
    modes = ["", "", "sync", "async", "gate", "future"]
    for _ in range(n):
        nm = rng.randint(0, 3)
        mws = []
        for _ in range(nm):
            mws.append({"pre": rng.choice(modes), "onerr": rng.choice(modes + ["raise"] if rng.random() < 0.3 else modes),
                        "post": rng.choice(modes + ["raise"] if rng.random() < 0.3 else modes),
                        "postsave": rng.choice(modes + ["raise"]), "replace": rng.random() < 0.4})
        M = rng.randint(1, 3)
        cfg = {"A": rng.choice([0, 1, 2, 3]), "P": rng.choice([0, 1, 2]),
               "ack": rng.choice(["default", "when_saved", "when_received", "when_executed"]),
               "ack_async": rng.random() < 0.5, "ackable": rng.random() < 0.9,
               "backend_suspend": rng.random() < 0.3, "mws": mws, "propagate": rng.random() < 0.6,
               "msgs": _msgs(rng, M, ["valid"] * 9 + ["malformed"], ["ta0", "ta0", "ts0"], instant_p=0.3,
                             outcomes=["ret", "exc", "base", "nores", "cerr", "falsy"], timeout_p=0.3, savefail_p=0.3, ackfail_p=0.1, dup_p=0.25)}
        if not cfg["ack_async"] and len(mws) % 2 == 0:
            cfg["ack_future"] = True          # ack hands back a Future that completes when the scenario opens its gate
        steps: List[Any] = [["arrive", M]]
        for _ in range(rng.randint(0, 10)):
            r = rng.random()
            if r < 0.45:
                steps.append(["gate_any", rng.randint(0, 4)])
            elif r < 0.8:
                steps.append(["fin_any", rng.randint(0, 3), rng.choice(["ret", "exc", "base", "nores", "cerr", "falsy"])])
            else:
                steps.append(["adv_rel", rng.choice([1, 2, 5])])
        steps += EPILOGUE_CLEAN if rng.random() < 0.8 else []
        out.append({"cfg": cfg, "steps": steps, "family": "pipe"})
    return out


def gen_pipe_enum() -> Iterator[Scn]:
    """C02/C07: systematic ack type x ack style x outcome x backend failure x 0..1 mw, two messages."""
    for ack, aasync, oc, sf, mw, task in itertools.product(
            ["default", "when_received", "when_executed", "when_saved"], [False, True],
            ["ret", "exc", "base", "nores", "timeout", "falsy"], [False, True], [0, 1, 2], ["ta0", "ts0"]):
        if task == "ts0" and oc == "timeout":
            continue
        m1: Dict[str, Any] = {"task": task, "savefail": sf}
        if task == "ts0":
            m1["outcome"] = oc
        if oc == "timeout":
            m1["timeout"] = 4
        mws = [{"pre": "async", "post": "sync", "onerr": "async", "postsave": "sync"}][:mw] if mw < 2 else \
              [{"pre": "gate", "replace": True}, {"post": "gate", "postsave": "async"}]
        cfg = {"A": 2, "P": 1, "ack": ack, "ack_async": aasync, "mws": mws, "backend_suspend": mw == 2,
               "msgs": [m1, {"task": "ta0"}]}
        steps: List[Any] = [["arrive", 2], ["gate_any", 0], ["gate_any", 1]]
        if oc == "timeout":
            steps += [["gate_all"], ["adv_rel", 6]]
        elif task == "ta0":
            steps += [["gate_all"], ["fin", 1, oc]]
        steps += [["gate_any", 0], ["fin", 2, "ret"]] + EPILOGUE_CLEAN
        yield {"cfg": cfg, "steps": steps, "family": "pipe_enum"}


STYLES = ["plain", "aplain", "gen", "agen", "cm", "acm"]


def _rand_deps(rng: random.Random, nmax: int, uncached_p: float, fail_p: float) -> List[Dict[str, Any]]:
    n = rng.randint(1, nmax)
    deps = []
    depth = {0: 0}
    for i in range(1, n + 1):
        cands = [p for p in depth if depth[p] < 3]
        parent = rng.choice(cands)
        depth[i] = depth[parent] + 1
        deps.append({"id": i, "style": rng.choice(STYLES), "cached": rng.random() >= uncached_p, "parent": parent,
                     "suspend": rng.random() < 0.4, "fail": False})
    if rng.random() < fail_p:
        rng.choice(deps)["fail"] = True
    for d in deps:                      # drawn last: the graphs of earlier seeds stay what they were
        d["csusp"] = rng.random() < 0.35
    return deps


def gen_deps(seed: int, n: int, uncached_p: float = 0.3) -> List[Scn]:
    """C06/C12: dependency graphs x outcomes x propagate x concurrency."""
    rng = random.Random(("deps", seed, uncached_p).__repr__())
    out = []
    for _ in range(n):
        deps = _rand_deps(rng, 4, uncached_p, 0.2)
        M = rng.randint(1, 3)
        mws = []
        if rng.random() < 0.35:
            mws = [{rng.choice(["onerr", "post", "pre", "postsave"]): rng.choice(["raise", "sync", "async", "future"])}]
        cfg = {"A": rng.choice([0, 2, 3]), "P": rng.choice([0, 1, 2]), "deps": deps, "mws": mws,
               "propagate": rng.random() < 0.6,
               "ack": rng.choice(["default", "when_executed", "when_received"]),
               "msgs": _msgs(rng, M, ["valid"], ["ta", "ta", "ts", "ta0"], instant_p=0.3,
                             outcomes=["ret", "exc", "base", "nores", "falsy", "cerr"], timeout_p=0.25, dup_p=0.3)}
        steps: List[Any] = [["arrive", rng.randint(1, M)]]
        for _ in range(rng.randint(0, 12)):
            r = rng.random()
            if r < 0.5:
                steps.append(["gate_any", rng.randint(0, 5)])
            elif r < 0.8:
                steps.append(["fin_any", rng.randint(0, 3), rng.choice(["ret", "exc", "base", "nores", "cerr"])])
            elif r < 0.9:
                steps.append(["arrive", 1])
            else:
                steps.append(["adv_rel", rng.choice([1, 2, 5])])
        steps += [["arrive", M]] + EPILOGUE_CLEAN
        cfg["ctxvia"] = len(out) % 2 == 1
        out.append({"cfg": cfg, "steps": steps, "family": "deps"})
    return out


def gen_teardown_stop(seed: int, n: int) -> List[Scn]:
    """C12/C05: shutdown (with and without a drain timeout) and task timeouts arriving while an execution is INSIDE an awaiting
    teardown, with dependencies opened earlier still to be finalised after it."""
    rng = random.Random(("teardown_stop", seed).__repr__())
    out = []
    for k in range(n):
        first = {"id": 1, "style": rng.choice(["gen", "cm", "agen", "acm"]), "csusp": rng.random() < 0.3}
        second = {"id": 2, "style": rng.choice(["agen", "acm"]), "csusp": True, "parent": rng.choice([0, 1])}
        deps = [first, second]
        if rng.random() < 0.4:
            deps.append({"id": 3, "style": rng.choice(["gen", "acm", "plain"]), "parent": rng.choice([0, 2]), "csusp": rng.random() < 0.5})
        W = rng.choice([-1, 1, 2, 4])
        M = rng.randint(1, 3)
        msgs = []
        for _ in range(M):
            mc: Dict[str, Any] = {"task": rng.choice(["ta", "ta", "ta0"])}
            if rng.random() < 0.3:
                mc["timeout"] = rng.choice([2, 3])        # runs out while the teardown is suspended: the function has ended, no timeout error
            msgs.append(mc)
        cfg = {"A": rng.choice([1, 2, 0]), "P": rng.choice([0, 1]), "W": W, "deps": deps, "propagate": rng.random() < 0.5,
               "ack": rng.choice(["default", "when_executed", "when_saved", "when_received"]), "msgs": msgs}
        steps: List[Any] = [["arrive", M], ["fin_any", 0, rng.choice(["ret", "ret", "exc", "base"])]]
        if rng.random() < 0.5:
            steps.append(["fin_any", 0, rng.choice(["ret", "exc"])])
        r = rng.random()
        if r < 0.75:
            steps.append(["stop"])
        steps.append(["adv_rel", rng.choice([1, max(W, 0) + 5, 2 * max(W, 0) + 9])])
        if rng.random() < 0.5:
            steps += [["gate_any", 0], ["adv_rel", 2]]
        steps += [["gate_all"], ["fin_all", "ret"], ["gate_all"], ["stop"], ["adv_rel", max(W, 0) + 8]]
        out.append({"cfg": cfg, "steps": steps, "family": "teardown_stop"})
    return out


def gen_deps_enum() -> Iterator[Scn]:
    """C12: every chain/pair shape up to 3 nodes over teardown styles x outcome x propagate."""
    tstyles = ["gen", "agen", "cm", "acm"]
    shapes = [
        [(1, 0)], [(1, 0), (2, 0)], [(1, 0), (2, 1)], [(1, 0), (2, 1), (3, 2)], [(1, 0), (2, 0), (3, 1)],
    ]
    nth = 0
    for shape in shapes:
        for styles in itertools.product(tstyles, repeat=len(shape)):
            if len(shape) == 3 and len(set(styles)) == 1 and styles[0] != "gen":
                continue
            for oc, prop, failpos in itertools.product(["ret", "exc", "timeout", "cerr"], [True, False], [0] + [s[0] for s in shape]):
                if failpos and oc != "ret":
                    continue
                nth += 1
                # every other enumerated graph: its async teardowns await (opened by the epilogue, after the other message moved on)
                deps = [{"id": i, "style": st, "parent": p, "cached": True, "suspend": False, "fail": i == failpos,
                         "csusp": nth % 2 == 0 and st in ("agen", "acm")}
                        for (i, p), st in zip(shape, styles)]
                m1: Dict[str, Any] = {"task": "ta"}
                if oc == "timeout":
                    m1["timeout"] = 3
                cfg = {"A": 2, "P": 0, "deps": deps, "propagate": prop, "ack": "when_executed", "msgs": [m1, {"task": "ta"}]}
                steps: List[Any] = [["arrive", 2]]
                if oc == "timeout":
                    steps += [["adv_rel", 4]]
                else:
                    steps += [["fin", 1, oc]]
                steps += EPILOGUE_CLEAN
                yield {"cfg": cfg, "steps": steps, "family": "deps_enum"}


def gen_flow_enum(maxlen: int, cfgs: List[Dict[str, Any]]) -> Iterator[Scn]:
    """Bounded-exhaustive environment orders over {arrive1, fin-first, fin-last, stop, adv}."""
    alphabet = [["arrive", 1], ["fin_any", 0, "ret"], ["fin_any", -1, "exc"], ["stop"], ["adv"]]
    for cfg in cfgs:
        M = len(cfg["msgs"])
        for L in range(1, maxlen + 1):
            for seq in itertools.product(range(len(alphabet)), repeat=L):
                if seq.count(0) > M or seq.count(3) > 1:
                    continue
                if seq[0] in (1, 2):
                    continue
                steps = [alphabet[i] for i in seq]
                W = cfg.get("W", -1)
                yield {"cfg": cfg, "steps": steps + [["adv_rel", 4 + max(W, 0)], ["fin_all", "ret"], ["stop"], ["adv_rel", 5 + max(W, 0)]],
                       "family": "flow_enum"}


def flow_enum_cfgs(As: List[int], Ps: List[int], Ns: List[int], Ws: List[int], M: int) -> List[Dict[str, Any]]:
    return [{"A": A, "P": P, "N": N, "W": W, "msgs": [{"task": "ta0"}] * M}
            for A in As for P in Ps for N in Ns for W in Ws]


def gen_sync_drain(seed: int, n: int) -> List[Scn]:
    """Shutdown whose drain timeout runs out while synchronous task functions are still running in pool threads.

    Afterwards the functions finish: nothing (acknowledgement, stored result) may have pretended earlier that they had.
    """
    rng = random.Random(("syncdrain", seed).__repr__())
    out = []
    for _ in range(n):
        A = rng.choice([0, 3, 4])
        W = rng.choice([1, 2, 3])
        M = rng.randint(1, 3)
        msgs: List[Dict[str, Any]] = [{"task": "ts0", "slow": True} if (j == 0 or rng.random() < 0.5) else {"task": "ta0"} for j in range(M)]
        cfg = {"A": A, "P": rng.choice([0, 1]), "W": W, "ack": rng.choice(["default", "when_executed", "when_saved", "when_received"]),
               "ack_async": rng.random() < 0.3, "msgs": msgs}
        steps: List[Any] = [["arrive", M], ["adv_rel", rng.choice([0, 1, 4])]]
        if rng.random() < 0.3:
            steps.append(["fin_any", rng.randint(0, 2), rng.choice(["ret", "exc"])])
        steps += [["stop"], ["adv_rel", W + rng.choice([4, 7])], ["fin_all", rng.choice(["ret", "exc"])], ["adv_rel", 3]]
        out.append({"cfg": cfg, "steps": steps, "family": "sync_drain", "noconf": True})
    return out


def gen_late(seed: int, n: int) -> List[Scn]:
    """A task that is registered while the worker is already running: messages naming it are skipped (harmlessly) before
    the registration and executed exactly once after it."""
    rng = random.Random(("late", seed).__repr__())
    out = []
    for _ in range(n):
        A = rng.choice([0, 1, 2])
        P = rng.choice([0, 1])
        before = rng.randint(1, 2)
        after = rng.randint(1, 3)
        resync = len(out) % 3 == 2
        if resync:
            # the name is served by a plain function first (instant), and re-registered as a coroutine while the worker runs
            msgs: List[Dict[str, Any]] = [{"kind": "valid", "task": "ts0", "late": True, "body": "instant", "outcome": "ret"} for _ in range(before)]
        else:
            msgs = [{"kind": "unknown", "late": True} for _ in range(before)]
        msgs += [{"kind": "valid", "task": "ta0", "late": rng.random() < 0.7 or resync, "afterreg": True} for _ in range(after)]
        mws: List[Dict[str, Any]] = []
        if len(out) % 2 == 0:
            # one middleware is there from the start, a second one is registered together with the task (its hooks apply
            # to the messages that arrive afterwards)
            mws = [{"pre": "sync", "post": "async"}, {"pre": rng.choice(["sync", "async"]), "onerr": "sync", "post": "sync",
                                                      "postsave": rng.choice(["", "async"]), "late": True}]
        cfg = {"A": A, "P": P, "ackable": rng.random() < 0.7, "msgs": msgs, "late_sync_first": resync, "mws": mws,
               "ack": rng.choice(["default", "when_executed", "when_saved"])}
        steps: List[Any] = [["arrive", before], ["adv_rel", rng.choice([0, 1, 4])], ["register"], ["arrive", after],
                            ["adv_rel", 1], ["fin_all", rng.choice(["ret", "exc"])], ["adv_rel", 2], ["stop"], ["adv_rel", 5]]
        out.append({"cfg": cfg, "steps": steps, "family": "late_registration"})
    return out


def gen_sync_sat(seed: int, n: int) -> List[Scn]:
    """A worker whose registered tasks are all synchronous, saturated with functions that keep running in pool threads:
    the concurrency limit and the prefetch bound hold for them exactly as for coroutines."""
    rng = random.Random(("syncsat", seed).__repr__())
    out = []
    for _ in range(n):
        A = rng.choice([1, 2])
        P = rng.choice([0, 1])
        M = A + P + rng.randint(2, 4)
        cfg = {"A": A, "P": P, "synconly": True, "ackable": rng.random() < 0.7,
               "msgs": [{"task": "ts0", "slow": True} for _ in range(M)]}
        steps: List[Any] = [["arrive", M], ["adv_rel", rng.choice([0, 4])], ["probe", 1]]
        for _ in range(rng.randint(0, 3)):
            steps += [["fin_any", rng.randint(0, 3), rng.choice(["ret", "exc"])], ["probe", 1]]
        steps += [["fin_all", "ret"], ["adv_rel", 3]]
        out.append({"cfg": cfg, "steps": steps, "family": "sync_sat", "noconf": True})
    return out


def gen_stop_sweep(seed: int, n: int) -> List[Scn]:
    """C05: take a random base scenario and insert the stop request at every position."""
    rng = random.Random(("stop", seed).__repr__())
    out = []
    while len(out) < n:
        A = rng.choice([0, 1, 2, 3])
        P = rng.choice([0, 1, 2])
        N = rng.choice([0, 0, 1, 2, 3])
        W = rng.choice([-1, 2, 5, 0])
        M = rng.randint(2, 6)
        cfg = {"A": A, "P": P, "N": N, "W": W, "msgs": [{"task": "ta0"} for _ in range(M)]}
        if rng.random() < 0.3:
            for mc in cfg["msgs"]:
                if rng.random() < 0.4:
                    mc["ackfail"] = True
            cfg["ack"] = rng.choice(["default", "when_executed", "when_received"])
        elif rng.random() < 0.2:
            cfg["mws"] = [{rng.choice(["post", "onerr", "pre"]): "raise"}]
        elif rng.random() < 0.35:
            # acknowledgement that takes time (a Future the broker hands back): shutdown must wait for it as well
            cfg["ack_future"] = True
            cfg["ack"] = rng.choice(["default", "when_executed", "when_received", "when_saved"])
        if "mws" not in cfg and not cfg.get("ack_future") and rng.random() < 0.3:
            # synchronous task functions that keep running in a pool thread (after a drain timeout the function is still
            # running: nothing may pretend it has finished)
            for mc in cfg["msgs"]:
                if rng.random() < 0.5:
                    mc.update({"task": "ts0", "slow": True})
            cfg["ack"] = rng.choice(["default", "when_executed", "when_saved", "when_received"])
        cfg["bystander"] = len(out) % 5 == 0
        base = _flow_steps(rng, cfg, rng.randint(3, 8), ["ret", "exc"], midflight=False, stop_p=0.0)
        endless = rng.random() < 0.4
        for pos in range(len(base) + 1):
            steps = base[:pos] + [["stop"]] + base[pos:]
            if endless and W >= 0 and rng.random() < 0.5:
                # completions DURING the drain wait must not restart the timeout
                for _ in range(rng.randint(1, 3)):
                    steps += [["adv_rel", rng.randint(1, max(1, W - 1))], ["fin_any", 0, "ret"]]
                steps += [["adv_rel", 2 * W + 10]]
            elif endless:
                steps += [["adv_rel", max(W, 0) + 8]]
            else:
                steps += [["adv_rel", 2], ["fin_all", "ret"], ["adv_rel", max(W, 0) + 6]]
            if cfg.get("ack_future"):
                steps += [["gate_all"], ["adv_rel", 4]] if rng.random() < 0.7 else []
            scn: Scn = {"cfg": cfg, "steps": steps, "family": "stop_sweep"}
            if any(mc.get("slow") for mc in cfg["msgs"]):
                scn["noconf"] = True             # worker threads are not part of Receiver.tla
                scn["steps"] = steps + [["fin_all", "ret"], ["adv_rel", 3]]
            out.append(scn)
    return out[:n]

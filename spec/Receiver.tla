------------------------------ MODULE Receiver ------------------------------
(***************************************************************************)
(* Model of taskiq/receiver/receiver.py: Receiver.listen() = prefetcher +   *)
(* runner + one callback pipeline per message, on a single-threaded asyncio *)
(* loop.  One action = one atomic block of coroutine code between two real  *)
(* suspensions (CPython 3.12 semantics: Semaphore.acquire with a free       *)
(* permit and Queue.put on an unbounded queue do not suspend;               *)
(* asyncio.wait always suspends once; a task made by create_task cannot run *)
(* before its creator suspends; release() hands the permit straight to the  *)
(* first waiter).  The control flow up to the next suspension is evaluated  *)
(* as a pure function inside the action (PfTop/RnTop/Run below).            *)
(*                                                                          *)
(* Every action records the observable events it produces in `out'`; they   *)
(* are folded into the observable summary `obs` with the operators of       *)
(* RxProps, which is also what judges traces recorded from the real code.   *)
(*                                                                          *)
(* Deviation switches (what the code really does vs. the ideal):            *)
(*   LookaheadAfterLimit - the prefetcher starts another look-ahead fetch   *)
(*       after the max_tasks_to_execute-th message (pre-fix behaviour, D1)  *)
(*   CtxDictShared - un-cached dependency sub-contexts read the broker-wide *)
(*       dependency-context dict when they are created (pre-fix, D2)        *)
(***************************************************************************)
EXTENDS RxProps, SequencesExt

CONSTANTS LookaheadAfterLimit, CtxDictShared, Cfgs, MaxNow, Outcomes, AllowedViol

VARIABLES cfg,      \* configuration of this run (never changes)
          now,      \* virtual time in ticks
          k,        \* kernel record: flow-control state of prefetcher/runner
          cbw,      \* per message: "none","ready","gate","body","fin","rel"
          pc,       \* per message: index of the next pipeline instruction
          outc,     \* per message: outcome of a waiting body ("none" = unresolved)
          toAt,     \* per message: timeout deadline (-1 = none)
          shared,   \* message whose Context was written last into the broker dict
          snap,     \* per message: Context its top-level resolve context holds
          grp,      \* per message: group (sub-context) -> Context it captured
          gk,       \* per message: gate it is suspended at (NoG = none)
          opened,   \* set of gates the environment has opened
          returned, \* listen() has returned
          settling, \* an Advance happened and the loop has not settled yet
          out,      \* events emitted by the last step
          obs, viol \* observable summary / violated clauses (RxProps)

kvars == <<cfg, now, k, cbw, pc, outc, toAt, shared, snap, grp, gk, opened, returned, settling>>
vars == <<kvars, out, obs, viol>>

NoEv == <<>>
Ev(e, m, x, y, s) == [e |-> e, m |-> m, x |-> x, y |-> y, s |-> s, t |-> now]
EvT(e, m, x, y, s, t) == [e |-> e, m |-> m, x |-> x, y |-> y, s |-> s, t |-> t]

--------------------------------------------------------------------------
(* prefetcher control flow (pure)                                          *)
PfExit(kk) == [kk EXCEPT !.fetch = IF @ = "pending" THEN "none" ELSE @,
                         !.queue = Append(@, 0), !.permits = @ + 1, !.pf = "exited"]
PfAfterAcq(c, kk, t) == IF c.N > 0 /\ kk.fetched >= c.N THEN PfExit(kk)
                        ELSE [kk EXCEPT !.pf = "wait", !.pollAt = t + PollPeriod]
PfTop(c, kk, t) == IF kk.stop THEN PfExit(kk)
                   ELSE IF kk.permits > 0 THEN PfAfterAcq(c, [kk EXCEPT !.permits = @ - 1], t)
                   ELSE [kk EXCEPT !.pf = "acq"]

(* runner control flow (pure); several iterations may run without suspension *)
RECURSIVE RnTop(_, _, _), RnGot(_, _, _), RnAfterAcq(_, _, _)
RnAfterAcq(c, kk, t) ==
  LET k1 == IF kk.pf = "acq" THEN [kk EXCEPT !.pf = "granted"] ELSE [kk EXCEPT !.permits = @ + 1]
  IN IF k1.queue = <<>> THEN [k1 EXCEPT !.rn = "rget"] ELSE RnGot(c, k1, t)
RnTop(c, kk, t) ==
  IF c.A > 0
  THEN IF kk.slots > 0 THEN RnAfterAcq(c, [kk EXCEPT !.slots = @ - 1], t)
       ELSE [kk EXCEPT !.rn = "racq"]
  ELSE RnAfterAcq(c, kk, t)
RnGot(c, kk, t) ==
  LET item == Head(kk.queue)
      k1 == [kk EXCEPT !.queue = Tail(@)]
  IN IF item = 0
     THEN IF k1.live # {}
          THEN [k1 EXCEPT !.rn = "drain", !.drainSet = k1.live,
                          !.drainAt = IF c.W >= 0 THEN t + c.W ELSE -1]
          ELSE [k1 EXCEPT !.rn = "exited"]
     ELSE RnTop(c, [k1 EXCEPT !.live = @ \cup {item}, !.spawn = Append(@, item)], t)

KInit(c) ==
  LET k0 == [stop |-> FALSE, permits |-> c.P, slots |-> c.A, queue |-> <<>>,
             pf |-> "run", fetched |-> 0, fetch |-> "pending", fetchMsg |-> 0,
             pollAt |-> -1, rn |-> "run", live |-> {}, drainSet |-> {}, drainAt |-> -1,
             arrived |-> 0, ntaken |-> 0, spawn |-> <<>>]
  IN RnTop(c, PfTop(c, k0, 0), 0)

--------------------------------------------------------------------------
(* callback pipeline as a straight-line program of instructions            *)
(* instruction: [e, x, y, s, k, g, fx]                                      *)
(*   e  event name ("" = none), x/y/s its fields                            *)
(*   k  what happens after it: go | yield | gate | body | die               *)
(*   g  gate key <<name, m, x>> for k = "gate"                              *)
(*   fx effect: "" | ctx | cap (dep open: capture group ctx, y dynamic) |   *)
(*      capd (dep_opened: y dynamic) | start (y dynamic, arm timeout)       *)
I(e, x, y, s, kk, g, fx) == [e |-> e, x |-> x, y |-> y, s |-> s, k |-> kk, g |-> g, fx |-> fx]
NoG == <<"", 0, 0>>

HookInstrs(c, m, h, i, gen) ==
  LET mode == HookMode(c, i, h)
      b == h \o "_b"
      e == h \o "_e"
      last == IF mode = "raise" /\ h # "postsave" THEN "die" ELSE "go"
  IN CASE mode \in {"sync", "raise"} ->
            <<I(b, i, gen, ToString(TidOf(c, m)), "go", NoG, ""), I(e, i, 0, "", last, NoG, "")>>
       [] mode = "async" ->
            <<I(b, i, gen, ToString(TidOf(c, m)), "yield", NoG, ""), I(e, i, 0, "", "go", NoG, "")>>
       [] mode = "future" ->   \* the hook body runs in its own task: suspended before it starts and after it ends
            <<I("", 0, 0, "", "yield", NoG, ""), I(b, i, gen, ToString(TidOf(c, m)), "go", NoG, ""), I(e, i, 0, "", "yield", NoG, "")>>
       [] OTHER ->  \* "gate"
            <<I(b, i, gen, ToString(TidOf(c, m)), "gate", <<h, m, i>>, ""), I(e, i, 0, "", "go", NoG, "")>>

(* hooks of kind h, in registration order; a raising hook ends the list *)
RECURSIVE HooksFrom(_, _, _, _, _)
HooksFrom(c, m, h, idxs, pregen) ==
  IF idxs = <<>> THEN <<>>
  ELSE LET i == Head(idxs)
           gen == IF h = "pre" THEN GenBefore(c, i) ELSE TotalGen(c)
       IN HookInstrs(c, m, h, i, gen)
          \o (IF HookMode(c, i, h) = "raise" THEN <<>> ELSE HooksFrom(c, m, h, Tail(idxs), pregen))
Hooks(c, m, h) == HooksFrom(c, m, h, HookIdx(c, m, h), 0)
HooksDie(c, h) == \E i \in 1..NMw(c) : HookMode(c, i, h) = "raise"

AckInstrs(c, m) ==
  IF ~c.ackable THEN <<>>
  ELSE IF MsgC(c, m).ackfail THEN <<I("ack", m, 0, "", "die", NoG, "")>>
  ELSE IF c.ackasync THEN <<I("ack", m, 0, "", "yield", NoG, ""), I("ack_e", m, 0, "", "go", NoG, "")>>
  ELSE IF c.ackfut THEN      \* the ack's work runs in its own task: the callback is suspended before it starts and until it ends
         <<I("", 0, 0, "", "yield", NoG, ""), I("ack", m, 0, "", "gate", <<"ack", m, 0>>, ""), I("ack_e", m, 0, "", "yield", NoG, "")>>
  ELSE <<I("ack", m, 0, "", "go", NoG, "")>>

IsAsyncStyle(st) == st \in {"aplain", "agen", "acm"}
(* deps in open order, truncated after the first one that fails on open *)
RECURSIVE DepOpenFrom(_, _, _)
DepOpenFrom(c, m, ds) ==
  IF ds = <<>> THEN <<>>
  ELSE LET d == Head(ds)
           susp == d.suspend /\ IsAsyncStyle(d.style)
       IN <<I("dep_open", d.id, 0, "", IF susp THEN "gate" ELSE "go", <<"dep", m, d.id>>, "cap")>>
          \o (IF susp THEN <<I("dep_opened", d.id, 0, "", "go", NoG, "capd")>> ELSE <<>>)
          \o (IF d.fail THEN <<>> ELSE DepOpenFrom(c, m, Tail(ds)))

(* which deps get opened (open order, up to and including a failing one) *)
RECURSIVE OpenedDeps(_)
OpenedDeps(ds) == IF ds = <<>> THEN <<>>
                  ELSE IF Head(ds).fail THEN <<Head(ds)>> ELSE <<Head(ds)>> \o OpenedDeps(Tail(ds))

(* close order of taskiq_dependencies: sub-contexts first (creation order,   *)
(* recursively), then the context's own opened dependencies reversed.        *)
(* A dependency that failed while opening never reached opened_dependencies. *)
RECURSIVE CloseG(_, _, _)
CloseG(c, g, od) ==
  LET kids == SelectSeq([h \in 1..Len(c.gpar) |-> h], LAMBDA h : c.gpar[h] = g)
      own == SelectSeq(od, LAMBDA d : d.cgrp = g /\ d.style \in Teardown /\ ~d.fail)
  IN FlattenSeq([j \in 1..Len(kids) |-> CloseG(c, kids[j], od)]) \o RevSeq(own)

DepCloseInstrs(c, m, oc) ==
  LET od == OpenedDeps(DepsOf(c, m))
      order == CloseG(c, 0, od)
      saw == IF c.propagate /\ oc \in ErrOutcomes THEN "exc" ELSE "none"
      (* a teardown that awaits (async generator / async context manager): suspended inside the finalisation until the   *)
      (* scenario opens gate <<"depc", m, id>>; "dep_closed" marks the end of that dependency's finalisation             *)
      one(d) == IF CloseSusp(d)
                THEN <<I("dep_close", d.id, 0, saw, "gate", <<"depc", m, d.id>>, ""), I("dep_closed", d.id, 0, "", "go", NoG, "")>>
                ELSE <<I("dep_close", d.id, 0, saw, "go", NoG, "")>>
  IN FlattenSeq([j \in 1..Len(order) |-> one(order[j])])

SaveFlags(oc) == IF oc = "ret" THEN 6 ELSE 29
SaveCls(oc) == CASE oc = "ret" -> "none" [] oc = "cancel" -> "timeout" [] oc = "cerr" -> "cancel" [] oc = "falsy" -> "exc" [] OTHER -> oc

AckDies(c, m, at) == c.ackable /\ MsgC(c, m).ackfail /\ AckT(c) = at
Pre(c, m) ==
  LET mc == MsgC(c, m) IN
  IF mc.kind # "valid" THEN <<I("cb_b", 0, 0, "", "go", NoG, "")>>
  ELSE
     <<I("cb_b", 0, 0, "", "go", NoG, "")>>
  \o Hooks(c, m, "pre")
  \o (IF HooksDie(c, "pre") THEN <<>>
      ELSE IF AckDies(c, m, "when_received") THEN AckInstrs(c, m)
      ELSE (IF AckT(c) = "when_received" THEN AckInstrs(c, m) ELSE <<>>)
        \o <<I("", 0, 0, "", "go", NoG, "ctx")>>
        \o DepOpenFrom(c, m, DepsOf(c, m))
        \o (IF WillDepFail(c, m) THEN <<>>
            ELSE IF mc.task \in {"ts", "ts0"}
                 THEN <<I("start", m, 0, "argok", "go", NoG, "start"), I("end", m, 0, mc.outcome, "yield", NoG, "")>>
                 ELSE IF mc.body = "instant"
                 THEN <<I("start", m, 0, "argok", "go", NoG, "start"), I("end", m, 0, mc.outcome, "go", NoG, "")>>
                 ELSE <<I("start", m, 0, "argok", "body", NoG, "start")>>))

StaticOutcome(c, m) ==
  LET mc == MsgC(c, m) IN
  IF WillDepFail(c, m) THEN "depfail"
  ELSE IF mc.task \in {"ts", "ts0"} \/ mc.body = "instant" THEN mc.outcome ELSE "none"

(* instructions after the body; oc = outcome as the body saw it *)
Post(c, m, oc) ==
  LET mc == MsgC(c, m)
      dyn == StaticOutcome(c, m) = "none"
      stop1 == (oc \in ErrOutcomes /\ HooksDie(c, "onerr")) \/ AckDies(c, m, "when_received")
      stop2 == stop1 \/ HooksDie(c, "post") \/ AckDies(c, m, "when_executed")
      saved == oc # "nores"
  IN (IF dyn /\ oc = "cancel" /\ mc.slowcancel
      THEN <<I("", 0, 0, "", "yield", NoG, ""), I("", 0, 0, "", "yield", NoG, "")>> ELSE <<>>)
  \o (IF dyn THEN <<I("end", m, 0, oc, "go", NoG, "")>> ELSE <<>>)
  \o DepCloseInstrs(c, m, oc)
  \o (IF oc \in ErrOutcomes THEN Hooks(c, m, "onerr") ELSE <<>>)
  \o (IF stop1 THEN <<>>
      ELSE (IF AckT(c) = "when_executed" THEN AckInstrs(c, m) ELSE <<>>)
        \o (IF AckDies(c, m, "when_executed") THEN <<>> ELSE Hooks(c, m, "post"))
        \o (IF stop2 THEN <<>>
            ELSE (IF saved
                  THEN <<I("save_b", TidOf(c, m), SaveFlags(oc), SaveCls(oc),
                           IF c.bsusp THEN "gate" ELSE "go", <<"save", m, 0>>, "")>>
                       \o <<I("save_e", TidOf(c, m), 0, IF mc.savefail THEN "fail" ELSE "ok", "go", NoG, "")>>
                       \o (IF mc.savefail THEN <<>> ELSE Hooks(c, m, "postsave"))
                  ELSE <<>>)
              \o (IF AckT(c) = "when_saved" THEN AckInstrs(c, m) ELSE <<>>)
              \o (IF AckDies(c, m, "when_saved") THEN <<>> ELSE <<I("cb_e", 0, 0, "ok", "go", NoG, "")>>)))

Dies(c, m, oc) == MsgC(c, m).kind = "valid" /\
                  (HooksDie(c, "pre") \/ (oc \in ErrOutcomes /\ HooksDie(c, "onerr")) \/ HooksDie(c, "post"))

Prog(c, m, oc) ==
  IF MsgC(c, m).kind # "valid" THEN Pre(c, m) \o <<I("cb_e", 0, 0, "ok", "go", NoG, "")>>
  ELSE IF HooksDie(c, "pre") \/ AckDies(c, m, "when_received") THEN Pre(c, m)
  ELSE IF oc = "none" THEN Pre(c, m) ELSE Pre(c, m) \o Post(c, m, oc)

(* a sub-context copies the dependency-context dict when it is created, i.e. *)
(* right before the first dependency of its subtree is opened: capture for   *)
(* the group and every not-yet-created ancestor group                        *)
RECURSIVE CapChain(_, _, _, _)
CapChain(c, gr, g, val) ==
  IF g = 0 THEN gr
  ELSE CapChain(c, IF gr[g] = 0 THEN [gr EXCEPT ![g] = val] ELSE gr, c.gpar[g], val)

(* run message m's pipeline from r.pc until it suspends or ends              *)
(* r = [pc, w, evs, shared, snap, grp, toAt]                                  *)
RECURSIVE Run(_, _, _, _, _, _)
Run(c, m, P, r, gates, t) ==
  IF r.pc > Len(P) THEN [r EXCEPT !.w = "fin"]
  ELSE
    LET i == P[r.pc]
        g == IF i.fx \in {"cap", "capd"} THEN DepRec(c, i.x).grp ELSE 0
        r0 == CASE i.fx = "ctx" -> [r EXCEPT !.shared = m, !.snap = m]
                [] i.fx = "cap" /\ g > 0 ->
                      [r EXCEPT !.grp = CapChain(c, r.grp, g, IF CtxDictShared THEN r.shared ELSE r.snap)]
                [] i.fx = "start" /\ MsgC(c, m).timeout > 0 -> [r EXCEPT !.toAt = t + MsgC(c, m).timeout]
                [] OTHER -> r
        yraw == CASE i.fx \in {"cap", "capd"} -> IF g > 0 THEN r0.grp[g] ELSE r0.snap
                  [] i.fx = "start" -> IF GraphTask(c, m) THEN r0.snap ELSE 0
                  [] OTHER -> -1
        yv == IF yraw = -1 THEN i.y ELSE IF yraw = 0 THEN 0 ELSE TidOf(c, yraw)
        r1 == IF i.e = "" THEN r0 ELSE [r0 EXCEPT !.evs = Append(@, EvT(i.e, m, i.x, yv, i.s, t))]
        nxt == [r1 EXCEPT !.pc = @ + 1]
    IN CASE i.k = "go" -> Run(c, m, P, nxt, gates, t)
         [] i.k = "yield" -> [nxt EXCEPT !.w = "ready"]
         [] i.k = "gate" -> IF i.g \in gates THEN Run(c, m, P, nxt, gates, t) ELSE [nxt EXCEPT !.w = "gate", !.g = i.g]
         [] i.k = "body" -> [nxt EXCEPT !.w = "body"]
         [] OTHER -> [nxt EXCEPT !.evs = Append(@, EvT("cb_e", m, 0, 0, "raised", t)), !.w = "fin",
                                 !.pc = Len(P) + 1]

--------------------------------------------------------------------------
M == cfg.M
Msgs == 1..cfg.M

CurOutcome(m) == IF StaticOutcome(cfg, m) # "none" THEN StaticOutcome(cfg, m) ELSE outc[m]
CurProg(m) == Prog(cfg, m, CurOutcome(m))
GateOf(m) == gk[m]

CbEnabled(m) == \/ cbw[m] = "ready"
                \/ cbw[m] = "gate" /\ GateOf(m) \in opened
                \/ cbw[m] = "body" /\ outc[m] # "none"

(* guards of all internal (loop-driven) actions; used for quiescence *)
GFetch == k.fetch = "pending" /\ k.ntaken < k.arrived
GPGranted == k.pf = "granted"
GPWait == k.pf = "wait" /\ (k.fetch = "done" \/ now >= k.pollAt)
GRGranted == k.rn = "rgranted"
GRGet == k.rn = "rget" /\ k.queue # <<>>
GRDrain == k.rn = "drain" /\ ((\A m \in k.drainSet : cbw[m] = "rel") \/ (k.drainAt >= 0 /\ now >= k.drainAt))
GRelease(m) == cbw[m] = "fin"
GTimeout(m) == cbw[m] = "body" /\ outc[m] = "none" /\ toAt[m] >= 0 /\ now >= toAt[m]
GReturn == k.pf = "exited" /\ k.rn = "exited" /\ ~returned
Quiescent == ~(GFetch \/ GPGranted \/ GPWait \/ GRGranted \/ GRGet \/ GRDrain \/ GReturn
               \/ \E m \in Msgs : CbEnabled(m) \/ GRelease(m) \/ GTimeout(m))
EnvOK == Quiescent \/ ~settling

EmitStep(acc, ev) == LET o2 == TLCEval(RxFold(cfg, acc.o, ev))
                     IN [o |-> o2, v |-> acc.v \cup RxCheck(cfg, o2, ev)]
Emit(evs) == /\ out' = evs
             /\ LET res == TLCEval(FoldLeft(EmitStep, [o |-> obs, v |-> viol], evs))
                IN /\ obs' = res.o
                   /\ viol' = res.v

(* apply a kernel result: newly spawned callbacks become runnable *)
SetK(k1) == /\ k' = [k1 EXCEPT !.spawn = <<>>]
            /\ cbw' = [m \in Msgs |-> IF \E j \in DOMAIN k1.spawn : k1.spawn[j] = m THEN "ready" ELSE cbw[m]]
            /\ pc' = [m \in Msgs |-> IF \E j \in DOMAIN k1.spawn : k1.spawn[j] = m THEN 1 ELSE pc[m]]

--------------------------------------------------------------------------
InitWith(c) ==
  /\ cfg = c
  /\ now = 0
  /\ k = KInit(cfg)
  /\ cbw = [m \in 1..cfg.M |-> "none"]
  /\ pc = [m \in 1..cfg.M |-> 0]
  /\ outc = [m \in 1..cfg.M |-> "none"]
  /\ toAt = [m \in 1..cfg.M |-> -1]
  /\ shared = 0
  /\ snap = [m \in 1..cfg.M |-> 0]
  /\ grp = [m \in 1..cfg.M |-> [g \in 1..Len(cfg.gpar) |-> 0]]
  /\ gk = [m \in 1..cfg.M |-> NoG]
  /\ opened = {}
  /\ returned = FALSE
  /\ settling = FALSE
  /\ out = <<>>
  /\ obs = RxObsInit(cfg)
  /\ viol = {}
Init == \E c \in Cfgs : InitWith(c)

(* ---------------- environment ---------------- *)
Arrive(n) ==
  /\ EnvOK /\ k.arrived < M /\ n \in 1..(M - k.arrived)
  /\ k' = [k EXCEPT !.arrived = @ + n]
  /\ settling' = FALSE
  /\ Emit(<<Ev("arrive", 0, n, 0, "")>>)
  /\ UNCHANGED <<cfg, now, cbw, pc, outc, toAt, shared, snap, grp, gk, opened, returned>>

Stop ==
  /\ EnvOK /\ ~k.stop
  /\ k' = [k EXCEPT !.stop = TRUE]
  /\ settling' = FALSE
  /\ Emit(<<Ev("stop", 0, 0, 0, "")>>)
  /\ UNCHANGED <<cfg, now, cbw, pc, outc, toAt, shared, snap, grp, gk, opened, returned>>

Fin(m, o) ==
  /\ EnvOK /\ cbw[m] = "body" /\ outc[m] = "none" /\ o \in Outcomes
  /\ outc' = [outc EXCEPT ![m] = o]
  /\ settling' = FALSE
  /\ Emit(<<Ev("fin", m, 0, 0, o)>>)
  /\ UNCHANGED <<cfg, now, k, cbw, pc, toAt, shared, snap, grp, gk, opened, returned>>

(* only gates some pipeline can actually wait at *)
GateKeys == {key \in {<<h, m, i>> : h \in {"pre", "onerr", "post", "postsave"}, m \in Msgs, i \in 1..NMw(cfg)} :
                 IsValid(cfg, key[2]) /\ HookMode(cfg, key[3], key[1]) = "gate"}
            \cup {<<"dep", m, cfg.deps[j].id>> : m \in {mm \in Msgs : DepsOf(cfg, mm) # <<>>},
                                                 j \in {jj \in DOMAIN cfg.deps : cfg.deps[jj].suspend /\ IsAsyncStyle(cfg.deps[jj].style)}}
            \cup {<<"depc", m, cfg.deps[j].id>> : m \in {mm \in Msgs : DepsOf(cfg, mm) # <<>>},
                                                  j \in {jj \in DOMAIN cfg.deps : CloseSusp(cfg.deps[jj]) /\ ~cfg.deps[jj].fail}}
            \cup {<<"save", m, 0>> : m \in {mm \in Msgs : cfg.bsusp /\ IsValid(cfg, mm)}}
            \cup {<<"ack", m, 0>> : m \in {mm \in Msgs : cfg.ackfut /\ cfg.ackable /\ IsValid(cfg, mm) /\ ~MsgC(cfg, mm).ackfail}}
OpenGate(key) ==
  /\ EnvOK /\ key \notin opened
  /\ opened' = opened \cup {key}
  /\ settling' = FALSE
  /\ LET hit == \E m \in Msgs : cbw[m] = "gate" /\ GateOf(m) = key
     IN Emit(<<Ev("gate", key[2], key[3], IF hit THEN 1 ELSE 0, key[1])>>)
  /\ UNCHANGED <<cfg, now, k, cbw, pc, outc, toAt, shared, snap, grp, gk, returned>>

Timers == (IF k.pf = "wait" /\ k.fetch # "done" THEN {k.pollAt} ELSE {})
          \cup (IF k.rn = "drain" /\ k.drainAt >= 0 THEN {k.drainAt} ELSE {})
          \cup {toAt[m] : m \in {mm \in Msgs : cbw[mm] = "body" /\ outc[mm] = "none" /\ toAt[mm] >= 0}}
Advance(t) ==
  /\ Quiescent /\ t > now /\ t <= MaxNow
  /\ \A d \in Timers : t <= d
  /\ now' = t
  /\ settling' = TRUE
  /\ Emit(<<EvT("adv", 0, 0, 0, "", t)>>)
  /\ UNCHANGED <<cfg, k, cbw, pc, outc, toAt, shared, snap, grp, gk, opened, returned>>

(* ---------------- look-ahead fetch task ---------------- *)
FetchStep ==
  /\ GFetch
  /\ k' = [k EXCEPT !.fetch = "done", !.fetchMsg = k.ntaken + 1, !.ntaken = @ + 1]
  /\ Emit(<<Ev("take", k.ntaken + 1, 0, 0, "")>>)
  /\ UNCHANGED <<cfg, now, cbw, pc, outc, toAt, shared, snap, grp, gk, opened, returned, settling>>

(* ---------------- prefetcher ---------------- *)
PGranted ==
  /\ GPGranted
  /\ SetK(PfAfterAcq(cfg, [k EXCEPT !.pf = "run"], now))
  /\ Emit(<<>>)
  /\ UNCHANGED <<cfg, now, outc, toAt, shared, snap, grp, gk, opened, returned, settling>>

PWake ==
  /\ GPWait
  /\ IF k.fetch = "done"
     THEN LET lim == ~LookaheadAfterLimit /\ cfg.N > 0 /\ k.fetched + 1 >= cfg.N
              k1 == [k EXCEPT !.queue = Append(@, k.fetchMsg), !.fetched = @ + 1, !.pf = "run",
                              !.fetch = IF lim THEN "none" ELSE "pending", !.fetchMsg = 0]
          IN SetK(PfTop(cfg, k1, now))
     ELSE SetK(PfTop(cfg, [k EXCEPT !.permits = @ + 1, !.pf = "run"], now))
  /\ Emit(<<>>)
  /\ UNCHANGED <<cfg, now, outc, toAt, shared, snap, grp, gk, opened, returned, settling>>

(* ---------------- runner ---------------- *)
RGranted ==
  /\ GRGranted
  /\ SetK(RnAfterAcq(cfg, [k EXCEPT !.rn = "run"], now))
  /\ Emit(<<>>)
  /\ UNCHANGED <<cfg, now, outc, toAt, shared, snap, grp, gk, opened, returned, settling>>

RGet ==
  /\ GRGet
  /\ SetK(RnGot(cfg, [k EXCEPT !.rn = "run"], now))
  /\ Emit(<<>>)
  /\ UNCHANGED <<cfg, now, outc, toAt, shared, snap, grp, gk, opened, returned, settling>>

RDrain ==
  /\ GRDrain
  /\ k' = [k EXCEPT !.rn = "exited"]
  /\ Emit(<<>>)
  /\ UNCHANGED <<cfg, now, cbw, pc, outc, toAt, shared, snap, grp, gk, opened, returned, settling>>

ListenReturn ==
  /\ GReturn
  /\ returned' = TRUE
  /\ Emit(<<Ev("ret", 0, 0, 0, "")>>)
  /\ UNCHANGED <<cfg, now, k, cbw, pc, outc, toAt, shared, snap, grp, gk, opened, settling>>

(* ---------------- callbacks ---------------- *)
CbRun(m) ==
  /\ CbEnabled(m)
  /\ LET r0 == [pc |-> pc[m], w |-> "run", evs |-> <<>>, shared |-> shared, snap |-> snap[m],
                grp |-> grp[m], toAt |-> toAt[m], g |-> NoG]
         r == Run(cfg, m, CurProg(m), r0, opened, now)
     IN /\ pc' = [pc EXCEPT ![m] = r.pc]
        /\ cbw' = [cbw EXCEPT ![m] = r.w]
        /\ shared' = r.shared
        /\ snap' = [snap EXCEPT ![m] = r.snap]
        /\ grp' = [grp EXCEPT ![m] = r.grp]
        /\ toAt' = [toAt EXCEPT ![m] = r.toAt]
        /\ gk' = [gk EXCEPT ![m] = r.g]
        /\ Emit(r.evs)
  /\ UNCHANGED <<cfg, now, k, outc, opened, returned, settling>>

CbTimeout(m) ==
  /\ GTimeout(m)
  /\ outc' = [outc EXCEPT ![m] = "cancel"]
  /\ Emit(<<>>)
  /\ UNCHANGED <<cfg, now, k, cbw, pc, toAt, shared, snap, grp, gk, opened, returned, settling>>

CbRelease(m) ==
  /\ GRelease(m)
  /\ cbw' = [cbw EXCEPT ![m] = "rel"]
  /\ k' = LET k1 == [k EXCEPT !.live = @ \ {m}]
          IN IF cfg.A = 0 THEN k1
             ELSE IF k1.rn = "racq" THEN [k1 EXCEPT !.rn = "rgranted"] ELSE [k1 EXCEPT !.slots = @ + 1]
  /\ Emit(<<>>)
  /\ UNCHANGED <<cfg, now, pc, outc, toAt, shared, snap, grp, gk, opened, returned, settling>>

Internal == FetchStep \/ PGranted \/ PWake \/ RGranted \/ RGet \/ RDrain \/ ListenReturn
            \/ \E m \in Msgs : CbRun(m) \/ CbTimeout(m) \/ CbRelease(m)
Env == (\E n \in 1..M : Arrive(n)) \/ Stop \/ (\E m \in Msgs : \E o \in Outcomes : Fin(m, o))
       \/ (\E key \in GateKeys : OpenGate(key)) \/ (\E t \in Timers \cup {now + 1} : Advance(t))
Next == Internal \/ Env

Spec == Init /\ [][Next]_vars
FairSpec == Spec /\ WF_vars(Internal)

--------------------------------------------------------------------------
(* properties checked on the design *)
NoViolation == viol \subseteq AllowedViol
(* model-only conservation law behind C03 "slots are never leaked" *)
SlotConservation ==
  cfg.A > 0 =>
    k.slots + Cardinality(k.live) + (IF k.rn \in {"rget", "rgranted", "drain", "exited"} THEN 1 ELSE 0) = cfg.A
(* C04 decomposition: hand-over queue is bounded by P + 1 *)
QueueBound == Len(SelectSeq(k.queue, LAMBDA x : x # 0)) <= cfg.P + 1
(* soundness of the end-of-trace clauses C01_Stuck / C03_Progress: in a    *)
(* quiescent state of the design no taken message waits while a slot is   *)
(* free, and an idle, not-stopping worker has taken everything available  *)
NoStuckMessage ==
  (Quiescent /\ ~returned) =>
     /\ (\A m \in 1..k.ntaken : (cbw[m] = "none" /\ IsValid(cfg, m)) =>
            (cfg.A > 0 /\ Cardinality({x \in Msgs : cbw[x] \in {"ready", "gate", "body"}}) >= cfg.A)
            \/ k.pf = "exited")
     /\ ((~k.stop /\ (cfg.N = 0 \/ k.ntaken < cfg.N) /\ (\A x \in Msgs : cbw[x] \in {"none", "rel"}))
            => k.ntaken = k.arrived)
(* bounded-liveness halves of C05 as state predicates (time can only pass in quiescent  *)
(* states, so "quiescent, deadline passed, not returned" is a reachable bad STATE iff   *)
(* the deadline can be missed); the model analogue of the end-of-trace clauses          *)
DeadlineBase == Max2(Max2(ShutdownT(obs), obs.lastDoneT), obs.lastTakeT)
PromptReturn ==
  (Quiescent /\ ~returned /\ ShutdownT(obs) >= 0 /\ AllTakenDone(cfg, obs))
     => now < DeadlineBase + PollPeriod + Slack
TimeoutReturn ==
  (Quiescent /\ ~returned /\ ShutdownT(obs) >= 0 /\ cfg.W >= 0 /\ ~AllTakenDone(cfg, obs)
     /\ now >= TimeoutBase(obs) + cfg.W + Slack)
     => (cfg.A > 0 /\ obs.nRun = cfg.A /\ "KF_C05_SaturatedNoTimeout" \in AllowedViol)
TypeOK == /\ k.permits >= 0 /\ k.slots >= 0
          /\ k.ntaken <= k.arrived
View == kvars
=============================================================================

---------------------------- MODULE MC_FlowAbs ----------------------------
(* TLC: FlowAbs on small instances (all A, P, N up to the bounds given in the cfg), IndInv and Safe as invariants *)
EXTENDS FlowAbs
CONSTANT MaxTaken
Constraint == taken <= MaxTaken
=============================================================================

------------------------------ MODULE PmProps ------------------------------
(***************************************************************************)
(* C17 (exactly one live worker per slot, slots constant, dead workers      *)
(* replaced within two ticks) and C18 (failure budget, reload-all, shutdown) *)
(* of the worker process manager, stated over the events seen at the fake    *)
(* multiprocessing / os.kill / signal boundary (harness/pm_driver.py).       *)
(* A supervision tick n runs from event tick(n) to event tick(n+1).          *)
(* Environment events carry the position in the tick: "sleep" (before the    *)
(* manager drains its action queue) or "drained" (after it found the queue   *)
(* empty, before the liveness scan) - a "drained" request is handled in the  *)
(* next tick.                                                               *)
(***************************************************************************)
EXTENDS Naturals, Integers, Sequences, FiniteSets, TLC

RangeS(s) == {s[i] : i \in DOMAIN s}
Slots(c) == 0..(c.workers - 1)
NoProc == [pid |-> 0, alive |-> FALSE, diedAt |-> 0, term |-> FALSE, joined |-> FALSE]

PmObsInit(c) ==
  [ tick |-> 0,
    cur |-> [i \in Slots(c) |-> NoProc],         \* process currently occupying each slot
    old |-> {},                                  \* pids that were replaced: [pid, joined]
    startsInTick |-> [i \in Slots(c) |-> 0],
    reloadDue |-> 0,                             \* tick in which a pending reload-all must be handled (0 = none)
    reloadNext |-> FALSE,                        \* a reload-all arrived after the drain: due next tick
    shutDue |-> 0, shutNext |-> FALSE,
    shutClean |-> FALSE,                         \* when the stop request arrived nothing else was waiting to be handled before it
    found |-> <<>>,                              \* ticks of found_dead events (first is_alive() = False per process; informational)
    sure |-> 0,                                  \* unexpected exits handled by a restart: the worker had died on its own in an EARLIER tick
    maybe |-> 0,                                 \* (same value; kept as a separate field for the trace format)
    kills |-> <<>>, killing |-> FALSE,
    ret |-> 2 ]                                  \* 2 = still running, 0 = success, -1 = failure, 3 = crashed

HandleTick(o, pos) == IF pos = "sleep" THEN o.tick ELSE o.tick + 1

PmFold(c, o, ev) ==
  CASE ev.e = "tick" ->
         [o EXCEPT !.tick = ev.n, !.startsInTick = [i \in Slots(c) |-> 0],
                   !.reloadDue = IF o.reloadNext THEN ev.n ELSE 0, !.reloadNext = FALSE,
                   !.shutDue = IF o.shutNext THEN ev.n ELSE (IF o.shutDue # 0 THEN o.shutDue ELSE 0), !.shutNext = FALSE]
    (* a worker that dies while the pool is being spawned (tick 0) is first looked at by the scan of tick 1 *)
    [] ev.e = "die" -> [o EXCEPT !.cur[ev.slot].alive = FALSE, !.cur[ev.slot].diedAt = IF o.tick = 0 THEN 1 ELSE o.tick]
    [] ev.e \in {"sighup", "reload"} ->
         IF ev.s = "sleep" THEN [o EXCEPT !.reloadDue = o.tick] ELSE [o EXCEPT !.reloadNext = TRUE]
    [] ev.e = "sigint" ->
         IF o.shutDue # 0 \/ o.shutNext THEN o
         ELSE LET ht == HandleTick(o, ev.s)
                  waiting == (o.reloadDue = ht) \/ (ev.s = "drained" /\ o.reloadNext)
                             \/ (\E i \in Slots(c) : o.cur[i].pid # 0 /\ o.cur[i].diedAt # 0 /\ o.cur[i].diedAt < ht)
              IN IF ev.s = "sleep" THEN [o EXCEPT !.shutDue = o.tick, !.shutClean = ~waiting]
                 ELSE [o EXCEPT !.shutNext = TRUE, !.shutClean = ~waiting]
    [] ev.e = "start" ->
         IF ev.slot \in Slots(c)
         THEN [o EXCEPT !.old = IF o.cur[ev.slot].pid # 0 THEN @ \cup {[pid |-> o.cur[ev.slot].pid, joined |-> o.cur[ev.slot].joined]} ELSE @,
                        !.cur[ev.slot] = [pid |-> ev.pid, alive |-> TRUE, diedAt |-> 0, term |-> FALSE, joined |-> FALSE],
                        !.startsInTick[ev.slot] = @ + 1,
                        !.sure = IF o.cur[ev.slot].pid # 0 /\ o.cur[ev.slot].diedAt # 0 /\ o.cur[ev.slot].diedAt < o.tick THEN @ + 1 ELSE @,
                        !.maybe = IF o.cur[ev.slot].pid # 0 /\ o.cur[ev.slot].diedAt # 0 /\ o.cur[ev.slot].diedAt < o.tick THEN @ + 1 ELSE @]
         ELSE o
    [] ev.e = "terminate" ->
         [o EXCEPT !.cur = [i \in Slots(c) |-> IF o.cur[i].pid = ev.pid THEN [o.cur[i] EXCEPT !.term = TRUE, !.alive = FALSE] ELSE o.cur[i]]]
    [] ev.e = "join" ->
         [o EXCEPT !.cur = [i \in Slots(c) |-> IF o.cur[i].pid = ev.pid /\ ev.s = "" THEN [o.cur[i] EXCEPT !.joined = TRUE] ELSE o.cur[i]]]
    [] ev.e = "found_dead" -> [o EXCEPT !.found = Append(@, o.tick)]
    [] ev.e = "kill" -> [o EXCEPT !.kills = Append(@, ev.pid), !.killing = TRUE]
    [] ev.e = "ret" -> [o EXCEPT !.ret = ev.n]
    [] ev.e = "raised" -> [o EXCEPT !.ret = 3]
    [] OTHER -> o

(* The failure budget counts "unexpected worker exits the manager has handled".  What the manager has noticed is internal,   *)
(* so the count is defined from outside: a worker that died on its own in tick d is seen dead by the liveness scan of tick d *)
(* at the latest, and its replacement in a LATER tick is a handled unexpected exit - also when a reload-all is carried out   *)
(* in that tick (the failure action was queued first).  A worker that dies in the very tick in which a reload-all replaces   *)
(* it was restarted by the reload, which never consumes budget.  Dead, not yet replaced workers that died in an earlier tick *)
(* are the exits that can be "being handled" when the manager gives up.                                                      *)
DeadNow(c, o) == Cardinality({i \in Slots(c) : o.cur[i].pid # 0 /\ o.cur[i].diedAt # 0 /\ o.cur[i].diedAt < o.tick})
Overdue(c, o, t) == Cardinality({i \in Slots(c) : ~o.cur[i].alive /\ o.cur[i].pid # 0 /\ o.cur[i].diedAt # 0 /\ o.cur[i].diedAt <= t})
LivePids(c, o) == {o.cur[i].pid : i \in {j \in Slots(c) : o.cur[j].alive}}
CurPids(c, o) == {o.cur[i].pid : i \in Slots(c)}

PmCheck(c, op, o, ev) ==
  (* ---------------- C17 ---------------- *)
     (IF ev.e = "start" /\ ev.slot \notin Slots(c) THEN {"C17_SlotCount"} ELSE {})
  \cup (IF ev.e \in {"tick", "eot"} /\ ev.pid # c.workers THEN {"C17_SlotCount"} ELSE {})
  \cup (IF ev.e = "start" /\ ev.slot \in Slots(c) /\ op.cur[ev.slot].pid # 0
           /\ ~(op.cur[ev.slot].joined /\ (op.cur[ev.slot].term \/ ~op.cur[ev.slot].alive))
        THEN {"C17_OnePerSlot"} ELSE {})
  \cup (IF ev.e = "start" /\ \E i \in Slots(c) : i # ev.slot /\ op.cur[i].pid = ev.pid THEN {"C17_OnePerSlot"} ELSE {})
  (* a worker that died in tick d is noticed by the scan of tick d and replaced in tick d + 1: at the start of tick n nothing *)
  (* that died in tick n - 2 or earlier is still waiting, unless the budget told the manager to give up instead              *)
  \cup (IF ev.e \in {"tick", "eot"} /\ op.ret = 2
        THEN LET od == Overdue(c, op, (IF ev.e = "tick" THEN ev.n - 2 ELSE op.tick - 1))
                 spent == c.max_fails >= 1 /\ op.sure + od >= c.max_fails
             IN (IF od > 0 /\ ~spent THEN {"C17_Replaced"} ELSE {})
                \cup (IF c.max_fails >= 1 /\ (op.sure >= c.max_fails \/ (od > 0 /\ spent)) THEN {"C18_BudgetIgnored"} ELSE {})
        ELSE {})
  (* giving up with the failure status while the budget is not exhausted leaves dead workers without a replacement *)
  \cup (IF ev.e = "ret" /\ ev.n = -1 /\ Overdue(c, op, op.tick) > 0
           /\ ~(c.max_fails >= 1 /\ op.maybe + DeadNow(c, op) >= c.max_fails)
        THEN {"C17_Replaced"} ELSE {})
  (* ---------------- C18: budget ---------------- *)
  \cup (IF ev.e = "ret" /\ ev.n = -1
           /\ ~(c.max_fails >= 1 /\ DeadNow(c, op) >= 1 /\ op.maybe + DeadNow(c, op) >= c.max_fails)
        THEN {"C18_BudgetEarly"} ELSE {})
  \cup (IF ev.e = "ret" /\ ev.n \notin {0, -1} THEN {"C18_ReturnStatus"} ELSE {})
  \cup (IF ev.e = "raised" THEN {"C18_Crashed", "C17_Crashed"} ELSE {})
  (* ---------------- C18: reload-all ---------------- *)
  \cup (IF ev.e \in {"tick", "eot"} /\ op.ret = 2 /\ op.tick >= 1
        THEN (IF op.reloadDue = op.tick /\ \E i \in Slots(c) : op.startsInTick[i] # 1 THEN {"C18_ReloadAll"} ELSE {})
             \cup (IF \E i \in Slots(c) : op.startsInTick[i] > 1 THEN {"C18_RestartOncePerTick"} ELSE {})
        ELSE {})
  \cup (IF ev.e = "start" /\ op.tick >= 1 /\ ev.slot \in Slots(c) /\ op.startsInTick[ev.slot] >= 1 THEN {"C18_RestartOncePerTick"} ELSE {})
  (* ---------------- C18: shutdown ---------------- *)
  \cup (IF ev.e = "kill" /\ (ev.pid \notin CurPids(c, op) \/ ev.s # "ok" \/ \E i \in DOMAIN op.kills : op.kills[i] = ev.pid)
        THEN {"C18_ShutdownSignals"} ELSE {})
  \cup (IF ev.e = "kill" /\ op.shutDue = 0 THEN {"C18_SpuriousShutdown"} ELSE {})
  (* once the workers have been told to stop, none of them is signalled a second time (SIGTERM from terminate() either) *)
  \cup (IF ev.e = "terminate" /\ op.killing THEN {"C18_ShutdownSignals"} ELSE {})
  \cup (IF ev.e = "start" /\ op.killing THEN {"C18_StartAfterShutdown"} ELSE {})
  \cup (IF ev.e = "start" /\ op.shutClean /\ op.shutDue # 0 /\ op.shutDue <= op.tick THEN {"C18_StartAfterShutdown"} ELSE {})
  \cup (IF ev.e = "ret" /\ ev.n = 0
        THEN (IF op.shutDue = 0 \/ op.shutDue > op.tick THEN {"C18_SpuriousExit"} ELSE {})
             \cup (IF ~(LivePids(c, op) \subseteq RangeS(op.kills)) THEN {"C18_ShutdownSignals"} ELSE {})
        ELSE {})
  \cup (IF ev.e \in {"tick", "eot"} /\ op.ret = 2 /\ op.shutDue # 0 /\ op.shutDue <= op.tick THEN {"C18_ShutdownIgnored"} ELSE {})
=============================================================================

------------------------------- MODULE ObsPm -------------------------------
EXTENDS PmProps, Json, IOUtils, TLCExt
VARIABLES tid, i, obs, viol
Batch == JsonDeserialize(IOEnv.TRACE_FILE)
Init == tid \in 1..Len(Batch) /\ i = 0 /\ obs = PmObsInit(Batch[tid].cfg) /\ viol = {}
Next == /\ i < Len(Batch[tid].ev)
        /\ LET c == Batch[tid].cfg
               ev == Batch[tid].ev[i + 1]
               o2 == PmFold(c, obs, ev)
           IN obs' = o2 /\ viol' = viol \cup {<<v, i + 1>> : v \in {w \in PmCheck(c, obs, o2, ev) : \A p \in viol : p[1] # w}}
        /\ i' = i + 1 /\ tid' = tid
Spec == Init /\ [][Next]_<<tid, i, obs, viol>>
Report == (i = Len(Batch[tid].ev)) => PrintT(<<"VERDICT", tid, viol>>)
=============================================================================

----------------------------- MODULE Scheduler -----------------------------
(***************************************************************************)
(* Model of taskiq/cli/scheduler/run.py (run_scheduler_loop, get_task_delay  *)
(* for minute-pattern cron and one-shot schedules, delayed_send) and of      *)
(* TaskiqScheduler.on_ready with a scripted ScheduleSource.                  *)
(* Time is in cfg units (cfg.minute per minute, cfg.second per second): the  *)
(* code's decisions are all relative to the next minute boundary and the     *)
(* +1 s look-ahead, so a short minute keeps the structure and makes the      *)
(* exhaustive exploration over several minutes cheap.                        *)
(*                                                                          *)
(* Deviation switch:                                                        *)
(*   DedupInFlight - a one-shot whose send is still in flight is not sent   *)
(*       again by the next poll (FALSE = pre-fix: the look-ahead overlaps    *)
(*       the next poll by one second, D6: double send)                      *)
(***************************************************************************)
EXTENDS SchProps, SequencesExt

CONSTANTS DedupInFlight, Cfgs, AllowedViol, AddSpecs

VARIABLES cfg, now, sch, lp, wakeAt, pollN, nkick, infl, nextId, snap, pending, out, obs, viol
kvars == <<cfg, now, sch, lp, wakeAt, pollN, nkick, infl, nextId, snap, pending>>
vars == <<kvars, out, obs, viol>>

E0 == [e |-> "", src |-> 0, sid |-> 0, t |-> 0, n |-> 0, ok |-> TRUE, s |-> "", ids |-> <<>>]
Ev(e) == [E0 EXCEPT !.e = e, !.t = now]

EmitStep(acc, ev) == LET o2 == TLCEval(SchFold(cfg, acc.o, ev))
                     IN [o |-> o2, v |-> acc.v \cup SchCheck(cfg, acc.o, o2, ev)]
Emit(evs) == /\ out' = evs
             /\ LET res == TLCEval(FoldLeft(EmitStep, [o |-> obs, v |-> viol], evs))
                IN obs' = res.o /\ viol' = res.v

InitWith(c) ==
  /\ cfg = c
  /\ now = c.start
  /\ sch = InitSched(c)
  /\ lp = "poll"
  /\ wakeAt = c.start
  /\ pollN = [i \in DOMAIN c.srcs |-> 0]
  /\ nkick = [x \in {} |-> 0]
  /\ infl = {}
  /\ nextId = 1
  /\ snap = {}
  /\ pending = {}
  /\ out = <<>>
  /\ obs = SchObsInit(c)
  /\ viol = {}
Init == \E c \in Cfgs : InitWith(c)

SidSeq(S) == SetToSortSeq(S, <)
CeilDiv(a, b) == (a + b - 1) \div b

(* one poll round = two atomic blocks of run_scheduler_loop: PollBegin asks the *)
(* sources (gather suspends the loop: sends due at the same instant run in     *)
(* between), PollEval evaluates the answers and spawns the sends.              *)
(* `pending` = one-shot ids whose send was spawned and had not completed when   *)
(* the current round began (purged at the top of each round).                   *)
PollPurge ==   \* top of the loop body: forget completed sends, start asking the sources (gather: tasks not yet run)
  /\ lp = "poll" /\ now >= wakeAt
  /\ pending' = {sid \in pending : \E f \in infl : f.sid = sid /\ f.kind = "once"}
  /\ lp' = "list"
  /\ Emit(<<>>)
  /\ UNCHANGED <<cfg, now, sch, wakeAt, pollN, nkick, infl, nextId, snap>>

PollBegin ==   \* the get_schedules() calls run
  /\ lp = "list"
  /\ LET srcs == DOMAIN cfg.srcs
         failing(i) == \E q \in DOMAIN cfg.srcs[i].fail : cfg.srcs[i].fail[q] = pollN[i] + 1
         evsOf(i) == <<[Ev("poll") EXCEPT !.src = i, !.n = pollN[i] + 1, !.ok = ~failing(i)]>>
                     \o (IF failing(i) THEN <<>>
                         ELSE <<[Ev("listed") EXCEPT !.src = i, !.n = pollN[i] + 1,
                                                   !.ids = SidSeq({s.sid : s \in {x \in sch : x.src = i}})]>>)
     IN /\ snap' = {s \in sch : ~failing(s.src)}
        /\ pollN' = [i \in srcs |-> pollN[i] + 1]
        /\ Emit(FlattenSeq([i \in 1..Len(cfg.srcs) |-> evsOf(i)]))
  /\ lp' = "eval"
  /\ UNCHANGED <<cfg, now, sch, wakeAt, nkick, infl, nextId, pending>>

PollEval ==
  /\ lp = "eval"
  /\ LET dueCron == {s \in snap : s.kind = "cron" /\ CronDue(cfg, s, now)}
         dueOnce == {s \in snap : s.kind = "once" /\ s.T <= HorizonOf(cfg, now)
                                  /\ ~(DedupInFlight /\ s.sid \in pending)}
         fireAt(s) == IF s.kind = "cron" \/ s.T <= now THEN now ELSE now + CeilDiv(s.T - now, cfg.second) * cfg.second
         news == dueCron \cup dueOnce
         order == SetToSortSeq(news, LAMBDA a, b : a.src < b.src \/ (a.src = b.src /\ a.sid < b.sid))
     IN /\ infl' = infl \cup {[id |-> nextId + q - 1, sid |-> order[q].sid, src |-> order[q].src, at |-> fireAt(order[q]),
                               st |-> "wait", cancel |-> order[q].cancel, kind |-> order[q].kind, ok |-> TRUE] : q \in DOMAIN order}
        /\ nextId' = nextId + Len(order)
        /\ pending' = pending \cup {s.sid : s \in dueOnce}
  /\ lp' = "sleep"
  /\ wakeAt' = (MinuteOf(cfg, now) + 1) * cfg.minute
  /\ snap' = {}
  /\ Emit(<<>>)
  /\ UNCHANGED <<cfg, now, sch, pollN, nkick>>

Wake == /\ lp = "sleep" /\ now >= wakeAt
        /\ lp' = "poll"
        /\ Emit(<<>>)
        /\ UNCHANGED <<cfg, now, sch, wakeAt, pollN, nkick, infl, nextId, snap, pending>>

(* pre_send (may cancel) + kick, in one atomic block *)
PreKick(f) ==
  LET sc == cfg.srcs[f.src]
      n == (IF f.sid \in DOMAIN nkick THEN nkick[f.sid] ELSE 0) + 1
      kfail == \E q \in DOMAIN cfg.kickfail : cfg.kickfail[q] = <<f.sid, n>>
      split == sc.pre = "async" /\ sc.future          \* pre_send returns a Future: it completes in its own atomic block
      pre == IF sc.pre # "" /\ f.st # "kickonly" THEN <<[Ev("presend") EXCEPT !.src = f.src, !.sid = f.sid, !.ok = ~f.cancel]>> ELSE <<>>
      kick == <<[Ev("kick") EXCEPT !.sid = f.sid, !.n = n, !.ok = ~kfail, !.s = "payload_ok"]>>
      post == <<[Ev("postsend") EXCEPT !.src = f.src, !.sid = f.sid]>>
      removeIt == sc.removes /\ f.kind = "once"
  IN IF f.cancel /\ sc.pre # ""
     THEN /\ infl' = infl \ {f} /\ Emit(pre) /\ UNCHANGED <<nkick, sch>>
     ELSE IF split /\ f.st # "kickonly"
     THEN /\ infl' = (infl \ {f}) \cup {[f EXCEPT !.st = "kickonly"]} /\ Emit(pre) /\ UNCHANGED <<nkick, sch>>
     ELSE /\ nkick' = Upd(nkick, f.sid, n)
          /\ IF kfail
             THEN IF cfg.kicklat > 0
                  THEN /\ infl' = (infl \ {f}) \cup {[f EXCEPT !.st = "kick", !.at = now + cfg.kicklat, !.ok = FALSE]}
                       /\ Emit(pre \o kick) /\ UNCHANGED sch
                  ELSE /\ infl' = infl \ {f} /\ Emit(pre \o kick) /\ UNCHANGED sch
             ELSE IF cfg.kicklat > 0
                  THEN /\ infl' = (infl \ {f}) \cup {[f EXCEPT !.st = "kick", !.at = now + cfg.kicklat]}
                       /\ Emit(pre \o kick) /\ UNCHANGED sch
                  ELSE IF sc.post = "async"
                  THEN /\ infl' = (infl \ {f}) \cup {[f EXCEPT !.st = "post"]}
                       /\ Emit(pre \o kick) /\ UNCHANGED sch
                  ELSE /\ infl' = infl \ {f}
                       /\ sch' = IF removeIt THEN {s \in sch : ~(s.sid = f.sid /\ s.src = f.src /\ s.kind = "once")} ELSE sch
                       /\ Emit(pre \o kick \o post)

FireA(f) ==
  /\ f \in infl /\ f.st = "wait" /\ now >= f.at
  /\ IF cfg.srcs[f.src].pre = "async"
     THEN /\ infl' = (infl \ {f}) \cup {[f EXCEPT !.st = "pre"]} /\ Emit(<<>>) /\ UNCHANGED <<nkick, sch>>
     ELSE PreKick(f)
  /\ UNCHANGED <<cfg, now, lp, wakeAt, pollN, nextId, snap, pending>>

FireB(f) ==
  /\ f \in infl /\ f.st \in {"pre", "kickonly"}
  /\ PreKick(f)
  /\ UNCHANGED <<cfg, now, lp, wakeAt, pollN, nextId, snap, pending>>

Post(f) ==
  LET sc == cfg.srcs[f.src] IN
  /\ infl' = infl \ {f}
  /\ sch' = IF sc.removes /\ f.kind = "once" THEN {s \in sch : ~(s.sid = f.sid /\ s.src = f.src /\ s.kind = "once")} ELSE sch
  /\ Emit(<<[Ev("postsend") EXCEPT !.src = f.src, !.sid = f.sid]>>)

FireK(f) ==   \* the (slow) broker.kick call returns
  /\ f \in infl /\ f.st = "kick" /\ now >= f.at
  /\ IF ~f.ok THEN /\ infl' = infl \ {f} /\ Emit(<<>>) /\ UNCHANGED sch
     ELSE IF cfg.srcs[f.src].post = "async"
     THEN /\ infl' = (infl \ {f}) \cup {[f EXCEPT !.st = "post"]} /\ Emit(<<>>) /\ UNCHANGED sch
     ELSE Post(f)
  /\ UNCHANGED <<cfg, now, lp, wakeAt, pollN, nkick, nextId, snap, pending>>

FireC(f) ==
  /\ f \in infl /\ f.st = "post"
  /\ Post(f)
  /\ UNCHANGED <<cfg, now, lp, wakeAt, pollN, nkick, nextId, snap, pending>>

Internal == PollPurge \/ PollBegin \/ PollEval \/ Wake \/ \E f \in infl : FireA(f) \/ FireB(f) \/ FireC(f) \/ FireK(f)
Quiescent == /\ ~(lp = "poll" /\ now >= wakeAt) /\ ~(lp = "sleep" /\ now >= wakeAt) /\ lp \notin {"eval", "list"}
             /\ \A f \in infl : ~(f.st \in {"wait", "kick"} /\ now >= f.at) /\ f.st \notin {"pre", "post", "kickonly"}
Timers == {wakeAt} \cup {f.at : f \in {g \in infl : g.st \in {"wait", "kick"}}}

Advance(t) ==
  /\ Quiescent /\ t > now /\ t <= cfg.horizon /\ \A d \in Timers : t <= d
  /\ now' = t
  /\ Emit(<<>>)
  /\ UNCHANGED <<cfg, sch, lp, wakeAt, pollN, nkick, infl, nextId, snap, pending>>

AddS(i, sp) ==
  /\ Quiescent /\ i \in DOMAIN cfg.srcs
  /\ sch' = {x \in sch : x.sid # sp.sid} \cup {[src |-> i, sid |-> sp.sid, kind |-> sp.kind, mins |-> sp.mins, T |-> sp.T, cancel |-> sp.cancel]}
  /\ Emit(<<[Ev("add") EXCEPT !.src = i, !.sid = sp.sid, !.s = sp.kind, !.n = sp.T, !.ok = ~sp.cancel, !.ids = sp.mins]>>)
  /\ UNCHANGED <<cfg, now, lp, wakeAt, pollN, nkick, infl, nextId, snap, pending>>

RemoveS(i, sid) ==
  /\ Quiescent /\ \E x \in sch : x.sid = sid /\ x.src = i
  /\ sch' = {x \in sch : ~(x.sid = sid /\ x.src = i)}
  /\ Emit(<<[Ev("remove") EXCEPT !.src = i, !.sid = sid]>>)
  /\ UNCHANGED <<cfg, now, lp, wakeAt, pollN, nkick, infl, nextId, snap, pending>>

Eot == /\ Quiescent /\ now = cfg.horizon /\ (IF out = <<>> THEN TRUE ELSE out[Len(out)].e # "eot")
       /\ Emit(<<[Ev("eot") EXCEPT !.ok = TRUE]>>)
       /\ UNCHANGED kvars

Env == (\E t \in Timers \cup {now + 1, cfg.horizon} : Advance(t))
       \/ (\E i \in DOMAIN cfg.srcs : \E sp \in AddSpecs : (\A x \in obs.known : x.sid # sp.sid) /\ AddS(i, sp))
       \/ (\E x \in sch : RemoveS(x.src, x.sid))
       \/ Eot
Next == Internal \/ Env
Spec == Init /\ [][Next]_vars
NoViolation == viol \subseteq AllowedViol
=============================================================================

------------------------------ MODULE MC_Cl ------------------------------
EXTENDS Client, Json, IOUtils
CfgSeq == JsonDeserialize(IOEnv.CFG_FILE)
JsonCfgs == {CfgSeq[i] : i \in DOMAIN CfgSeq}
==========================================================================

------------------------------ MODULE Sim_Rx ------------------------------
(* Simulation wrapper of Receiver: records the environment's moves so that  *)
(* engine/rx.py can replay TLC-generated behaviours into the real code.     *)
EXTENDS Receiver, Json, IOUtils
CfgSeq == JsonDeserialize(IOEnv.CFG_FILE)
(* simulation: record the environment's moves so that engine/rx.py can     *)
(* replay the behaviour into the real code                                  *)
VARIABLES cid, elog, nint
CONSTANT SimDepth
svars == <<vars, cid, elog, nint>>
EnvNames == {"arrive", "stop", "fin", "gate", "adv"}
SimInit == /\ cid \in 1..Len(CfgSeq)
           /\ InitWith(CfgSeq[cid])
           /\ elog = <<>>
           /\ nint = 0
SimNext == /\ Next
           /\ cid' = cid
           /\ IF out' # <<>> /\ out'[1].e \in EnvNames
              THEN /\ elog' = Append(elog, [e |-> out'[1].e, m |-> out'[1].m, x |-> out'[1].x,
                                            s |-> out'[1].s, t |-> out'[1].t, n |-> nint])
                   /\ nint' = 0
              ELSE /\ elog' = elog
                   /\ nint' = nint + 1
SimSpec == SimInit /\ [][SimNext]_svars
Dump == TLCGet("level") < SimDepth \/ PrintT(<<"SCN", cid, elog>>)
==========================================================================

---------------------------- MODULE ObsReceiver ----------------------------
(***************************************************************************)
(* Observer: folds traces RECORDED FROM THE REAL taskiq Receiver into the   *)
(* observable summary of RxProps and evaluates every property clause after  *)
(* every event.  No enabling conditions: the whole trace is always consumed *)
(* and a failed clause is attributed by name and event index.  This is the  *)
(* verdict of checks C01-C07, C10 (execution side), C12.                    *)
(* Batch file (env TRACE_FILE): JSON array of {"cfg": .., "ev": [..]}.      *)
(***************************************************************************)
EXTENDS RxProps, Json, IOUtils, TLCExt
VARIABLES tid, i, obs, viol
Batch == JsonDeserialize(IOEnv.TRACE_FILE)
Init == /\ tid \in 1..Len(Batch)
        /\ i = 0
        /\ obs = RxObsInit(Batch[tid].cfg)
        /\ viol = {}
Next == /\ i < Len(Batch[tid].ev)
        /\ LET c == Batch[tid].cfg
               ev == Batch[tid].ev[i + 1]
               o2 == RxFold(c, obs, ev)
           IN /\ obs' = o2
              /\ viol' = viol \cup {<<v, i + 1>> : v \in {w \in RxCheck(c, o2, ev) : \A p \in viol : p[1] # w}}
        /\ i' = i + 1
        /\ tid' = tid
Spec == Init /\ [][Next]_<<tid, i, obs, viol>>
Report == (i = Len(Batch[tid].ev)) => PrintT(<<"VERDICT", tid, viol>>)
=============================================================================

------------------------------ MODULE LabelSrc ------------------------------
(* Model of schedule_sources/label_based.py: get_schedules() filters the     *)
(* live task.labels["schedule"] lists of own-broker tasks; post_send() of a   *)
(* time-only schedule pops the entry that was sent (recognised by the id      *)
(* get_schedules() stored in it; several entries may share a time, and       *)
(* entries with explicit ids - field i > 0 - may share an id as well).        *)
EXTENDS LblProps, FiniteSetsExt
CONSTANTS Cfgs, MaxOps, AllowedViol
VARIABLES cfg, ent, nops, out, obs, viol
vars == <<cfg, ent, nops, out, obs, viol>>
E0 == [e |-> "", task |-> 0, k |-> "", t |-> 0, a |-> 0, ok |-> TRUE, items |-> <<>>]
EmitStep(acc, ev) == LET o2 == TLCEval(LblFold(cfg, acc.o, ev)) IN [o |-> o2, v |-> acc.v \cup LblCheck(cfg, acc.o, o2, ev)]
Emit(evs) == /\ out' = evs
             /\ LET res == TLCEval(FoldLeft(EmitStep, [o |-> obs, v |-> viol], evs)) IN obs' = res.o /\ viol' = res.v
InitWith(c) == cfg = c /\ ent = TaskSeq(c) /\ nops = 0 /\ out = <<>> /\ obs = LblObsInit(c) /\ viol = {}
Init == \E c \in Cfgs : InitWith(c)
List == /\ Emit(<<[E0 EXCEPT !.e = "list", !.items = ExpectedO(cfg, ent, obs.ad)]>>)
        /\ nops' = nops + 1 /\ UNCHANGED <<cfg, ent>>
Fire(task, pos) ==
  /\ task \in DOMAIN ent /\ (cfg.tasks[task].own \/ task \in obs.ad)
  /\ LET mine == SelectSeq(ExpectedO(cfg, ent, obs.ad), LAMBDA x : x.task = task) IN
     /\ mine # <<>>
     /\ LET n == ((pos - 1) % Len(mine)) + 1
            s == mine[n]
            (* the entry that fired: the n-th listable entry of the task (recognised by its schedule id in the code) *)
            listable == SelectSeq([j \in 1..Len(ent[task]) |-> j], LAMBDA j : Listable(ent[task][j]))
            fired == listable[n]
            fe == ent[task][fired]
            (* post_send's first pass pops the FIRST entry with the fired time AND the fired schedule id: with a        *)
            (* generated id (i = 0: unique, stored in the entry by get_schedules) that is the fired entry itself, with  *)
            (* explicit ids (i > 0) that several entries of the task share it is the first of those with that time      *)
            target == IF fe.i = 0 THEN fired
                      ELSE Min({j \in 1..Len(ent[task]) : ent[task][j].i = fe.i /\ ent[task][j].t = fe.t /\ ent[task][j].k \in {"time", "both"}})
        IN /\ ent' = IF s.k = "time" THEN [ent EXCEPT ![task] = DropAt(@, target)] ELSE ent
           /\ Emit(<<[E0 EXCEPT !.e = "fire", !.task = task, !.k = s.k, !.t = s.t, !.a = s.a],
                     [E0 EXCEPT !.e = "kick", !.task = task, !.a = s.a]>>)
  /\ nops' = nops + 1 /\ UNCHANGED cfg
(* a task of another broker is registered (same name, same entries) on the source's own broker *)
Adopt(task) == /\ task \in DOMAIN ent /\ ~cfg.tasks[task].own /\ task \notin obs.ad
               /\ Emit(<<[E0 EXCEPT !.e = "adopt", !.task = task]>>)
               /\ nops' = nops + 1 /\ UNCHANGED <<cfg, ent>>
Noop == Emit(<<[E0 EXCEPT !.e = "noop"]>>) /\ nops' = nops + 1 /\ UNCHANGED <<cfg, ent>>
Next == nops < MaxOps /\ (List \/ \E task \in DOMAIN ent : (Adopt(task) \/ \E pos \in 1..3 : Fire(task, pos)))
Spec == Init /\ [][Next]_vars
NoViolation == viol \subseteq AllowedViol
=============================================================================

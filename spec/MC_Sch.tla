------------------------------ MODULE MC_Sch ------------------------------
EXTENDS Scheduler, Json, IOUtils
CfgSeq == JsonDeserialize(IOEnv.CFG_FILE)
JsonCfgs == {CfgSeq[i] : i \in DOMAIN CfgSeq}
AddSeq == JsonDeserialize(IOEnv.ADD_FILE)
JsonAdds == {AddSeq[i] : i \in DOMAIN AddSeq}
===========================================================================

------------------------------ MODULE FlowAbs ------------------------------
(***************************************************************************)
(* Flow control of Receiver.listen() at STATEMENT granularity, integers     *)
(* only: the two semaphores, the hand-over queue, the look-ahead fetch.     *)
(* One action = one statement of prefetcher() / runner() in                 *)
(* taskiq/receiver/receiver.py (labels p1..p8, pexit, r1..r5 below), any     *)
(* interleaving - no assumption about where asyncio suspends.               *)
(*                                                                          *)
(* Purpose: C03 (live <= A) and C04 (taken - finished <= A + P + 1) for     *)
(* EVERY A >= 1, P >= 0, N >= 0, not only the small instances TLC explores  *)
(* in Receiver.tla.  IndInv is an inductive invariant: Apalache discharges  *)
(*    IndInit => IndInv,   IndInv /\ Next => IndInv',   IndInv => Safe      *)
(* with A, P, N unconstrained naturals (tools/apalache_flow.sh); TLC checks  *)
(* the same invariant on small instances (MC_FlowAbs) and, through          *)
(* TraceFlow.tla, that event sequences recorded from the real Receiver are   *)
(* behaviours of this module (take / cb_b / cb_e / stop / ret are the        *)
(* logged actions, the statements in between are inferred by TLC).          *)
(***************************************************************************)
EXTENDS Integers

CONSTANTS
  \* @type: Int;
  A,      \* max_async_tasks (>= 1: a limited worker)
  \* @type: Int;
  P,      \* max_prefetch
  \* @type: Int;
  N       \* max_tasks_to_execute (0 = none)

VARIABLES
  \* @type: Str;
  ppc,      \* prefetcher: next statement
  \* @type: Str;
  rpc,      \* runner: next statement
  \* @type: Int;
  permits,  \* value of sem_prefetch
  \* @type: Int;
  slots,    \* value of the concurrency semaphore
  \* @type: Int;
  hold,     \* 1 while the prefetcher owns a prefetch permit
  \* @type: Int;
  rhold,    \* 1 while the runner owns an execution slot it has not handed to a callback
  \* @type: Int;
  extra,    \* 1 after the prefetcher's final release() gave back a permit it did not own
  \* @type: Int;
  q,        \* messages in the hand-over queue
  \* @type: Bool;
  qdone,    \* the QUEUE_DONE sentinel is in the queue (behind all messages)
  \* @type: Str;
  fetch,    \* look-ahead __anext__() task: "pending" | "ready" (holds a message) | "none"
  \* @type: Int;
  inhand,   \* 1 while the prefetcher holds a message it has not queued yet
  \* @type: Int;
  rmsg,     \* 1 while the runner holds a message it has not spawned yet
  \* @type: Int;
  fetched,  \* prefetcher's fetched_tasks counter
  \* @type: Int;
  live,     \* callback tasks alive
  \* @type: Bool;
  stop,     \* finish_event
  \* @type: Int;
  taken,    \* messages the broker has yielded
  \* @type: Int;
  finished  \* callbacks that ended

vars == <<ppc, rpc, permits, slots, hold, rhold, extra, q, qdone, fetch, inhand, rmsg, fetched, live, stop, taken, finished>>

PPC == {"p1", "p2", "p3", "p4", "p5", "p6", "p7", "p8", "pexit", "done"}
RPC == {"r1", "r2", "r3", "r5", "drain"}

Init ==
  /\ ppc = "p1" /\ rpc = "r1"
  /\ permits = P /\ slots = A /\ hold = 0 /\ rhold = 0 /\ extra = 0
  /\ q = 0 /\ qdone = FALSE /\ fetch = "pending" /\ inhand = 0 /\ rmsg = 0
  /\ fetched = 0 /\ live = 0 /\ stop = FALSE /\ taken = 0 /\ finished = 0

--------------------------------------------------------------------------
(* environment *)
Take ==      \* the broker yields a message into the look-ahead task
  /\ fetch = "pending"
  /\ fetch' = "ready" /\ taken' = taken + 1
  /\ UNCHANGED <<ppc, rpc, permits, slots, hold, rhold, extra, q, qdone, inhand, rmsg, fetched, live, stop, finished>>

Stop ==
  /\ ~stop /\ stop' = TRUE
  /\ UNCHANGED <<ppc, rpc, permits, slots, hold, rhold, extra, q, qdone, fetch, inhand, rmsg, fetched, live, taken, finished>>

Finish ==    \* a callback task ends; its done-callback releases the slot
  /\ live > 0
  /\ live' = live - 1 /\ slots' = slots + 1 /\ finished' = finished + 1
  /\ UNCHANGED <<ppc, rpc, permits, hold, rhold, extra, q, qdone, fetch, inhand, rmsg, fetched, stop, taken>>

--------------------------------------------------------------------------
(* prefetcher(), one statement per action *)
P1 == /\ ppc = "p1"                                   \* if finish_event.is_set(): break
      /\ ppc' = IF stop THEN "pexit" ELSE "p2"
      /\ UNCHANGED <<rpc, permits, slots, hold, rhold, extra, q, qdone, fetch, inhand, rmsg, fetched, live, stop, taken, finished>>
P2 == /\ ppc = "p2" /\ permits > 0                    \* await self.sem_prefetch.acquire()
      /\ permits' = permits - 1 /\ hold' = 1 /\ ppc' = "p3"
      /\ UNCHANGED <<rpc, slots, rhold, extra, q, qdone, fetch, inhand, rmsg, fetched, live, stop, taken, finished>>
P3 == /\ ppc = "p3"                                   \* if max_tasks_to_execute and fetched_tasks >= max: break
      /\ ppc' = IF N > 0 /\ fetched >= N THEN "pexit" ELSE "p4"
      /\ UNCHANGED <<rpc, permits, slots, hold, rhold, extra, q, qdone, fetch, inhand, rmsg, fetched, live, stop, taken, finished>>
P4 == /\ ppc = "p4"                                   \* done, _ = await asyncio.wait({current_message}, timeout=0.3)
      /\ ppc' = IF fetch = "ready" THEN "p6" ELSE "p5"
      /\ UNCHANGED <<rpc, permits, slots, hold, rhold, extra, q, qdone, fetch, inhand, rmsg, fetched, live, stop, taken, finished>>
P5 == /\ ppc = "p5"                                   \* if not done: self.sem_prefetch.release(); continue
      /\ permits' = permits + 1 /\ hold' = 0 /\ ppc' = "p1"
      /\ UNCHANGED <<rpc, slots, rhold, extra, q, qdone, fetch, inhand, rmsg, fetched, live, stop, taken, finished>>
P6 == /\ ppc = "p6"                                   \* message = current_message.result(); fetched_tasks += 1
      /\ fetch' = "none" /\ inhand' = 1 /\ fetched' = fetched + 1 /\ ppc' = "p7"
      /\ UNCHANGED <<rpc, permits, slots, hold, rhold, extra, q, qdone, rmsg, live, stop, taken, finished>>
P7 == /\ ppc = "p7"                                   \* if not max or fetched < max: current_message = create_task(__anext__())
      /\ fetch' = IF N = 0 \/ fetched < N THEN "pending" ELSE fetch
      /\ ppc' = "p8"
      /\ UNCHANGED <<rpc, permits, slots, hold, rhold, extra, q, qdone, inhand, rmsg, fetched, live, stop, taken, finished>>
P8 == /\ ppc = "p8"                                   \* await queue.put(message)
      /\ q' = q + 1 /\ inhand' = 0 /\ hold' = 0 /\ ppc' = "p1"
      /\ UNCHANGED <<rpc, permits, slots, rhold, extra, qdone, fetch, rmsg, fetched, live, stop, taken, finished>>
PExit == /\ ppc = "pexit"                             \* current_message.cancel(); queue.put(QUEUE_DONE); sem_prefetch.release()
         /\ fetch' = IF fetch = "pending" THEN "none" ELSE fetch
         /\ qdone' = TRUE /\ permits' = permits + 1
         /\ hold' = 0 /\ extra' = IF hold = 1 THEN extra ELSE 1
         /\ ppc' = "done"
         /\ UNCHANGED <<rpc, slots, rhold, q, inhand, rmsg, fetched, live, stop, taken, finished>>

--------------------------------------------------------------------------
(* runner(), one statement per action *)
R1 == /\ rpc = "r1" /\ slots > 0                      \* await self.sem.acquire()
      /\ slots' = slots - 1 /\ rhold' = 1 /\ rpc' = "r2"
      /\ UNCHANGED <<ppc, permits, hold, extra, q, qdone, fetch, inhand, rmsg, fetched, live, stop, taken, finished>>
R2 == /\ rpc = "r2"                                   \* self.sem_prefetch.release()
      /\ permits' = permits + 1 /\ rpc' = "r3"
      /\ UNCHANGED <<ppc, slots, hold, rhold, extra, q, qdone, fetch, inhand, rmsg, fetched, live, stop, taken, finished>>
R3 == /\ rpc = "r3"                                   \* message = await queue.get()
      /\ \/ /\ q > 0 /\ q' = q - 1 /\ rmsg' = 1 /\ rpc' = "r5"
         \/ /\ q = 0 /\ qdone /\ rpc' = "drain" /\ UNCHANGED <<q, rmsg>>
      /\ UNCHANGED <<ppc, permits, slots, hold, rhold, extra, qdone, fetch, inhand, fetched, live, stop, taken, finished>>
R5 == /\ rpc = "r5"                                   \* task = create_task(self.callback(message)); tasks.add(task)
      /\ live' = live + 1 /\ rmsg' = 0 /\ rhold' = 0 /\ rpc' = "r1"
      /\ UNCHANGED <<ppc, permits, slots, hold, extra, q, qdone, fetch, inhand, fetched, stop, taken, finished>>

Next == Take \/ Stop \/ Finish \/ P1 \/ P2 \/ P3 \/ P4 \/ P5 \/ P6 \/ P7 \/ P8 \/ PExit \/ R1 \/ R2 \/ R3 \/ R5
Spec == Init /\ [][Next]_vars

--------------------------------------------------------------------------
B(x) == IF x THEN 1 ELSE 0
Unfinished == B(fetch = "ready") + inhand + q + rmsg + live

(* what the properties ask *)
Limit == live <= A                                 \* C03
Bound == taken - finished <= A + P + 1             \* C04
ExactlyN == N > 0 => taken <= N                    \* C05 (post-fix: no look-ahead after the N-th message)
Safe == Limit /\ Bound /\ ExactlyN

(* inductive invariant *)
Holding == {"p3", "p4", "p5", "p6", "p7", "p8"}
IndInv ==
  /\ ppc \in PPC /\ rpc \in RPC
  /\ fetch \in {"pending", "ready", "none"}
  /\ permits >= 0 /\ slots >= 0 /\ q >= 0 /\ live >= 0 /\ fetched >= 0 /\ taken >= 0 /\ finished >= 0
  /\ hold \in {0, 1} /\ rhold \in {0, 1} /\ extra \in {0, 1} /\ inhand \in {0, 1} /\ rmsg \in {0, 1}
  (* who owns what, per statement *)
  /\ ppc \in Holding => hold = 1
  /\ ppc \in {"p1", "p2", "done"} => hold = 0
  /\ inhand = B(ppc \in {"p7", "p8"})
  /\ rhold = B(rpc \in {"r2", "r3", "r5", "drain"})
  /\ rmsg = B(rpc = "r5")
  /\ extra = 1 => ppc = "done"
  /\ permits >= extra
  /\ qdone = (ppc = "done")
  /\ ppc = "done" => fetch # "pending"
  /\ ppc = "p6" => fetch = "ready"
  /\ ppc \in {"p7"} => fetch = "none"
  (* the look-ahead exists only while another message may be accepted *)
  /\ fetch \in {"pending", "ready"} => (N = 0 \/ fetched < N)
  /\ N > 0 => fetched <= N
  (* conservation of execution slots and of prefetch permits *)
  /\ slots + live + rhold = A
  /\ permits + hold + q = P + B(rpc \in {"r3", "drain"}) + extra
  (* every message taken is somewhere *)
  /\ taken = fetched + B(fetch = "ready")
  /\ fetched = finished + inhand + q + rmsg + live

(* Apalache: arbitrary state satisfying the invariant (variables range over their types, then filtered by IndInv) *)
IndInit ==
  /\ ppc \in PPC /\ rpc \in RPC /\ fetch \in {"pending", "ready", "none"}
  /\ permits \in Nat /\ slots \in Nat /\ q \in Nat /\ live \in Nat /\ fetched \in Nat /\ taken \in Nat /\ finished \in Nat
  /\ hold \in {0, 1} /\ rhold \in {0, 1} /\ extra \in {0, 1} /\ inhand \in {0, 1} /\ rmsg \in {0, 1}
  /\ qdone \in BOOLEAN /\ stop \in BOOLEAN
  /\ IndInv

ConstInit == A \in Nat /\ A >= 1 /\ P \in Nat /\ N \in Nat
=============================================================================

------------------------------ MODULE MC_Cron ------------------------------
(* Exhaustive self-check of the calendar arithmetic of Cron.tla over a day   *)
(* range, and of the delay relation's totality/consistency on a lattice.     *)
EXTENDS Cron
CONSTANTS D0, D1
VARIABLE d
Init == d = D0
Next == d < D1 /\ d' = d + 1
Spec == Init /\ [][Next]_d
CalOK == CalendarOK(d)
(* for every (now, T) of a boundary lattice there is exactly one acceptable  *)
(* "kind" of answer and at least one value satisfying the relation           *)
Lat == {[d |-> 100, s |-> s, u |-> u] : s \in {0, 1, 58, 59, 60, 61, 119, 120, 121, 86399}, u \in {0, 1, 999999}}
DelayTotal == \A now \in Lat : \A T \in Lat \cup {AddSec(now, 61 - (now.s % 60)), AddSec(now, 62 - (now.s % 60))} :
                 \E r \in -1..130 : DelayOK(now, T, r) /\ \A r2 \in -1..130 : DelayOK(now, T, r2) => (r2 = r \/ (r >= 0 /\ r2 >= 0 /\ r2 - r \in {-1, 0, 1}))
ASSUME DelayTotal
=============================================================================

----------------------------- MODULE TraceFlow -----------------------------
(***************************************************************************)
(* Conformance of the real Receiver to FlowAbs: is the sequence of          *)
(* take / cb_b / cb_e / stop / ret events recorded from Receiver.listen()   *)
(* a behaviour of the statement-level flow-control model?  The logged       *)
(* events are bound to Take / (start of a spawned callback) / (end of a     *)
(* callback) / Stop / return; the semaphore and queue statements in between *)
(* are not logged and are inferred by TLC (silent steps).  All traces of one *)
(* batch share A, P, N (literal constants in the generated cfg).            *)
(* Per trace the highest matched position is kept in TLC register `tid`.    *)
(***************************************************************************)
EXTENDS FlowAbs, Sequences, Json, IOUtils, TLCExt, TLC
VARIABLES tid, l,
          spawned,   \* callbacks created by the runner (R5) that have not started yet
          running,   \* callbacks started and not ended
          ended      \* callbacks that ended whose done-callback (slot release) has not run yet
Batch == JsonDeserialize(IOEnv.TRACE_FILE)
T == Batch[tid].ev
tvars == <<vars, tid, l, spawned, running, ended>>

IsEv(e) == l <= Len(T) /\ T[l].e = e /\ l' = l + 1

LTake == IsEv("take") /\ Take /\ UNCHANGED <<spawned, running, ended>>
LStop == IsEv("stop") /\ Stop /\ UNCHANGED <<spawned, running, ended>>
LCbB  == IsEv("cb_b") /\ spawned > 0 /\ spawned' = spawned - 1 /\ running' = running + 1 /\ UNCHANGED <<vars, ended>>
LCbE  == IsEv("cb_e") /\ running > 0 /\ running' = running - 1 /\ ended' = ended + 1 /\ UNCHANGED <<vars, spawned>>
LRet  == IsEv("ret") /\ rpc = "drain" /\ ppc = "done" /\ UNCHANGED <<vars, spawned, running, ended>>

Silent ==
  /\ l' = l
  /\ \/ (P1 \/ P2 \/ P3 \/ P4 \/ P5 \/ P6 \/ P7 \/ P8 \/ PExit \/ R1 \/ R2 \/ R3) /\ UNCHANGED <<spawned, running, ended>>
     \/ R5 /\ spawned' = spawned + 1 /\ UNCHANGED <<running, ended>>
     \/ Finish /\ ended > 0 /\ ended' = ended - 1 /\ UNCHANGED <<spawned, running>>

TraceInit == /\ tid \in 1..Len(Batch)
             /\ Init
             /\ l = 1 /\ spawned = 0 /\ running = 0 /\ ended = 0
             /\ TLCSet(tid, 1)
TraceNext == (LTake \/ LStop \/ LCbB \/ LCbE \/ LRet \/ Silent) /\ tid' = tid
TraceSpec == TraceInit /\ [][TraceNext]_tvars

Progress == TLCGet(tid) >= l \/ TLCSet(tid, l)
Done == \A t \in 1..Len(Batch) : PrintT(<<"MAXL", t, TLCGet(t), Len(Batch[t].ev) + 1>>)
=============================================================================

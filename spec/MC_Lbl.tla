------------------------------ MODULE MC_Lbl ------------------------------
EXTENDS LabelSrc, Json, IOUtils
CfgSeq == JsonDeserialize(IOEnv.CFG_FILE)
JsonCfgs == {CfgSeq[i] : i \in DOMAIN CfgSeq}
===========================================================================

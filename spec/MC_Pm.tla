------------------------------- MODULE MC_Pm -------------------------------
EXTENDS ProcMan, Json, IOUtils
CfgSeq == JsonDeserialize(IOEnv.CFG_FILE)
JsonCfgs == {CfgSeq[i] : i \in DOMAIN CfgSeq}
============================================================================

----------------------------- MODULE TraceLabel -----------------------------
EXTENDS LabelSrc, Json, IOUtils, TLCExt
VARIABLES tid, l
Batch == JsonDeserialize(IOEnv.TRACE_FILE)
T == Batch[tid].ev
Match == LET n == Len(out') IN l + n - 1 <= Len(T) /\ (\A q \in 1..n : out'[q] = T[l + q - 1]) /\ l' = l + n
TraceInit == tid \in 1..Len(Batch) /\ InitWith(Batch[tid].cfg) /\ l = 1 /\ TLCSet(tid, 1)
TraceNext == /\ l <= Len(T)
             /\ \/ (T[l].e = "list" /\ List /\ Match)
                \/ (T[l].e = "fire" /\ (\E pos \in 1..8 : Fire(T[l].task, pos)) /\ Match)
                \/ (T[l].e = "noop" /\ Noop /\ Match)
                \/ (T[l].e = "adopt" /\ Adopt(T[l].task) /\ Match)
             /\ tid' = tid
TraceSpec == TraceInit /\ [][TraceNext]_<<vars, tid, l>>
Progress == TLCGet(tid) >= l \/ TLCSet(tid, l)
Done == \A t \in 1..Len(Batch) : PrintT(<<"MAXL", t, TLCGet(t), Len(Batch[t].ev) + 1>>)
=============================================================================

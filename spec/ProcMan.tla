------------------------------ MODULE ProcMan ------------------------------
(***************************************************************************)
(* Model of taskiq/cli/worker/process_manager.py: ProcessManager.start().   *)
(* The manager is single-threaded; per supervision tick it sleeps, drains   *)
(* its action queue (ReloadAll / ReloadOne / Shutdown) and scans the worker *)
(* table.  Worker deaths and signals arrive at two points of a tick: while  *)
(* it sleeps, or after the queue was found empty and before the scan.       *)
(* OS contract of the fakes: polling a dead child (is_alive) or join reaps  *)
(* it; os.kill on a reaped pid raises ProcessLookupError.                    *)
(*                                                                          *)
(* Deviation switch: KillChecksAlive - on shutdown only workers that are    *)
(*   still alive are signalled (FALSE = pre-fix, D7: os.kill on every        *)
(*   recorded pid, including one the scan has already reaped).               *)
(***************************************************************************)
EXTENDS PmProps, SequencesExt

CONSTANTS KillChecksAlive, Cfgs, MaxTicks, MaxEnvPerPos, AllowedViol,
          BootDeaths   \* TRUE: a replacement may crash while booting (dead before the manager first looks at it)

VARIABLES cfg, slot, q, phase, tick, restarts, nextPid, envn, out, obs, viol
kvars == <<cfg, slot, q, phase, tick, restarts, nextPid, envn>>
vars == <<kvars, out, obs, viol>>

E0 == [e |-> "", slot |-> -1, pid |-> 0, n |-> 0, s |-> ""]
W == cfg.workers
EmitStep(acc, ev) == LET o2 == TLCEval(PmFold(cfg, acc.o, ev)) IN [o |-> o2, v |-> acc.v \cup PmCheck(cfg, acc.o, o2, ev)]
Emit(evs) == /\ out' = evs
             /\ LET res == TLCEval(FoldLeft(EmitStep, [o |-> obs, v |-> viol], evs)) IN obs' = res.o /\ viol' = res.v

(* prepare_workers: pids 1001.. *)
InitWith(c) ==
  /\ cfg = c
  /\ slot = [i \in 0..(c.workers - 1) |-> [pid |-> 1001 + i, alive |-> TRUE, reaped |-> FALSE]]
  /\ q = <<>>
  /\ phase = "sleep0"
  /\ tick = 0
  /\ restarts = 0
  /\ nextPid = 1001 + c.workers
  /\ envn = 0
  /\ out = [i \in 1..c.workers |-> [E0 EXCEPT !.e = "start", !.slot = i - 1, !.pid = 1000 + i]]
  /\ obs = FoldLeft(LAMBDA o, ev : PmFold(c, o, ev), PmObsInit(c),
                    [i \in 1..c.workers |-> [E0 EXCEPT !.e = "start", !.slot = i - 1, !.pid = 1000 + i]])
  /\ viol = {}
Init == \E c \in Cfgs : InitWith(c)

(* the manager goes to sleep: a new tick begins *)
TickBegin ==
  /\ phase \in {"sleep0", "scanned"} /\ tick < MaxTicks
  /\ tick' = tick + 1
  /\ phase' = "sleep"
  /\ envn' = 0
  /\ Emit(<<[E0 EXCEPT !.e = "tick", !.n = tick + 1, !.pid = W]>>)
  /\ UNCHANGED <<cfg, slot, q, restarts, nextPid>>

(* ---- environment, at the two injection points ---- *)
Pos == IF phase = "sleep" THEN "sleep" ELSE "drained"
EnvOK == phase \in {"sleep", "drained"} /\ envn < MaxEnvPerPos
Die(i) ==
  /\ EnvOK /\ slot[i].alive
  /\ slot' = [slot EXCEPT ![i].alive = FALSE]
  /\ envn' = envn + 1
  /\ Emit(<<[E0 EXCEPT !.e = "die", !.slot = i, !.pid = slot[i].pid, !.s = Pos]>>)
  /\ UNCHANGED <<cfg, q, phase, tick, restarts, nextPid>>
Signal(name, action) ==
  /\ EnvOK
  /\ q' = Append(q, action)
  /\ envn' = envn + 1
  /\ Emit(<<[E0 EXCEPT !.e = name, !.s = Pos]>>)
  /\ UNCHANGED <<cfg, slot, phase, tick, restarts, nextPid>>
All == [k |-> "all", w |-> 0, ra |-> FALSE]
Shut == [k |-> "shut", w |-> 0, ra |-> FALSE]
One(i, ra) == [k |-> "one", w |-> i, ra |-> ra]

(* ---- drain loop as a pure function: st = [q, slot, restarts, reloaded, nextPid, evs, ret] ---- *)
RECURSIVE KillFrom(_, _, _)
KillFrom(sl, i, evs) ==   \* Shutdown branch: for worker in self.workers
  IF i >= Len(sl) THEN [evs |-> Append(evs, [E0 EXCEPT !.e = "ret", !.n = 0]), ret |-> 0]
  ELSE LET wk == sl[i + 1] IN
       IF KillChecksAlive /\ ~wk.alive
       THEN KillFrom(sl, i + 1, Append(evs, [E0 EXCEPT !.e = "found_dead", !.slot = i, !.pid = wk.pid]))
       ELSE IF wk.reaped
       THEN [evs |-> evs \o <<[E0 EXCEPT !.e = "kill", !.pid = wk.pid, !.s = "lookup_error"],
                              [E0 EXCEPT !.e = "raised", !.s = "ProcessLookupError"]>>, ret |-> 3]
       ELSE KillFrom(sl, i + 1, Append(evs, [E0 EXCEPT !.e = "kill", !.pid = wk.pid, !.s = "ok"]))

SlotSeq(sl) == [i \in 1..W |-> sl[i - 1]]

RECURSIVE DrainRun(_)
DrainRun(st) ==
  IF st.q = <<>> THEN st
  ELSE LET a == Head(st.q)
           s1 == [st EXCEPT !.q = Tail(@)]
       IN CASE a.k = "all" -> DrainRun([s1 EXCEPT !.q = @ \o [i \in 1..W |-> One(i - 1, TRUE)]])
            [] a.k = "shut" -> LET r == KillFrom(SlotSeq(s1.slot), 0, s1.evs) IN [s1 EXCEPT !.evs = r.evs, !.ret = r.ret]
            [] OTHER ->
                 LET counted == ~a.ra /\ cfg.max_fails >= 1
                     s2 == IF counted THEN [s1 EXCEPT !.restarts = @ + 1] ELSE s1
                 IN IF counted /\ s2.restarts >= cfg.max_fails
                    THEN [s2 EXCEPT !.evs = Append(@, [E0 EXCEPT !.e = "ret", !.n = -1]), !.ret = -1]
                    ELSE IF a.w \in s2.reloaded THEN DrainRun(s2)
                    ELSE LET old == s2.slot[a.w]
                             boots == a.w \in s2.boot      \* environment choice of this tick: the replacement dies while booting
                             new == [pid |-> s2.nextPid, alive |-> ~boots, reaped |-> boots]   \* the startup wait polls (and reaps) it
                         IN DrainRun([s2 EXCEPT !.slot[a.w] = new, !.nextPid = @ + 1, !.reloaded = @ \cup {a.w},
                                                !.evs = @ \o <<[E0 EXCEPT !.e = "terminate", !.pid = old.pid],
                                                               [E0 EXCEPT !.e = "join", !.pid = old.pid],
                                                               [E0 EXCEPT !.e = "start", !.slot = a.w, !.pid = s2.nextPid]>>
                                                         \o (IF boots THEN <<[E0 EXCEPT !.e = "die", !.slot = a.w, !.pid = s2.nextPid, !.s = "boot"],
                                                                               [E0 EXCEPT !.e = "found_dead", !.slot = a.w, !.pid = s2.nextPid]>>
                                                             ELSE <<>>)])

BootChoices == IF BootDeaths THEN SUBSET (0..(W - 1)) ELSE {{}}
Drain ==
  /\ phase = "sleep"
  /\ \E bs \in BootChoices :
       LET st == DrainRun([q |-> q, slot |-> slot, restarts |-> restarts, reloaded |-> {}, nextPid |-> nextPid, evs |-> <<>>, ret |-> 2,
                           boot |-> bs])
       IN /\ bs \subseteq st.reloaded        \* only replacements that were actually started can die at boot
          /\ q' = st.q /\ slot' = st.slot /\ restarts' = st.restarts /\ nextPid' = st.nextPid
          /\ phase' = IF st.ret = 2 THEN "drained" ELSE "done"
          /\ Emit(st.evs)
  /\ envn' = 0
  /\ UNCHANGED <<cfg, tick>>

(* liveness scan: is_alive() reaps a dead child; a failure reload is queued *)
Scan ==
  /\ phase = "drained"
  /\ LET dead == SelectSeq([i \in 1..W |-> i - 1], LAMBDA i : ~slot[i].alive)
     IN /\ q' = q \o [j \in 1..Len(dead) |-> One(dead[j], FALSE)]
        /\ slot' = [i \in 0..(W - 1) |-> IF ~slot[i].alive THEN [slot[i] EXCEPT !.reaped = TRUE] ELSE slot[i]]
        /\ Emit([j \in 1..Len(dead) |-> [E0 EXCEPT !.e = "found_dead", !.slot = dead[j], !.pid = slot[dead[j]].pid]])
  /\ phase' = "scanned"
  /\ UNCHANGED <<cfg, tick, restarts, nextPid, envn>>

EotAny == /\ phase \in {"sleep0", "scanned"}
       /\ phase' = "done"
       /\ Emit(<<[E0 EXCEPT !.e = "eot", !.pid = W]>>)
       /\ UNCHANGED <<cfg, slot, q, tick, restarts, nextPid, envn>>

Env == (\E i \in 0..(W - 1) : Die(i)) \/ Signal("sighup", All) \/ Signal("reload", All) \/ Signal("sigint", Shut)
Eot == tick = MaxTicks /\ EotAny
Next == TickBegin \/ Drain \/ Scan \/ Env \/ Eot
Spec == Init /\ [][Next]_vars
NoViolation == viol \subseteq AllowedViol
(* model-only statement of C17: the table always has W entries with distinct pids *)
TableOK == DOMAIN slot = 0..(W - 1) /\ \A i, j \in DOMAIN slot : i # j => slot[i].pid # slot[j].pid
=============================================================================

------------------------------ MODULE TracePm ------------------------------
EXTENDS ProcMan, Json, IOUtils, TLCExt
VARIABLES tid, l
Batch == JsonDeserialize(IOEnv.TRACE_FILE)
T == Batch[tid].ev
Match == LET n == Len(out') IN
         IF n = 0 THEN l' = l
         ELSE l + n - 1 <= Len(T) /\ (\A k \in 1..n : out'[k] = T[l + k - 1]) /\ l' = l + n
TraceInit == /\ tid \in 1..Len(Batch) /\ InitWith(Batch[tid].cfg)
             /\ l = IF Len(T) >= Len(out) /\ (\A k \in 1..Len(out) : out[k] = T[k]) THEN Len(out) + 1 ELSE 1
             /\ TLCSet(tid, l)
TraceNext == /\ l <= Len(T)
             /\ \/ ((TickBegin \/ Drain \/ Scan \/ EotAny) /\ Match)
                \/ (T[l].e = "die" /\ Die(T[l].slot) /\ Match)
                \/ (T[l].e = "sighup" /\ Signal("sighup", All) /\ Match)
                \/ (T[l].e = "reload" /\ Signal("reload", All) /\ Match)
                \/ (T[l].e = "sigint" /\ Signal("sigint", Shut) /\ Match)
                \/ (T[l].e = "noop" /\ l' = l + 1 /\ UNCHANGED vars)
             /\ tid' = tid
TraceSpec == TraceInit /\ [][TraceNext]_<<vars, tid, l>>
Progress == TLCGet(tid) >= l \/ TLCSet(tid, l)
Done == \A t \in 1..Len(Batch) : PrintT(<<"MAXL", t, TLCGet(t), Len(Batch[t].ev) + 1>>)
=============================================================================

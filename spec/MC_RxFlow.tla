---------------------------- MODULE MC_RxFlow ----------------------------
EXTENDS Receiver
(* exhaustive flow-control configurations: plain async tasks, no middlewares *)
CONSTANTS MA, MP, MN, MW, MM, Kinds
FlowMsg(kd) == [kind |-> kd, task |-> "ta0", body |-> "wait", outcome |-> "ret", timeout |-> 0, savefail |-> FALSE]
FlowCfg(A, P, N, W, ks) ==
  [A |-> A, P |-> P, N |-> N, W |-> W, ack |-> "when_saved", ackable |-> TRUE, ackasync |-> FALSE,
   M |-> Len(ks), msgs |-> [i \in 1..Len(ks) |-> FlowMsg(ks[i])], mws |-> <<>>, deps |-> <<>>, gpar |-> <<>>,
   propagate |-> TRUE, bsusp |-> FALSE]
FlowCfgs == {FlowCfg(A, P, N, W, ks) : A \in MA, P \in MP, N \in MN, W \in MW, ks \in [1..MM -> Kinds]}
WNone == {-1}
WNone5 == {-1, 5}
W2and5 == {2, 5}
==========================================================================

------------------------------ MODULE ObsCalc ------------------------------
(* Observer for C13 / C14: every recorded call of the real get_task_delay()  *)
(* (controlled clock) is judged by the calendar/cron/delay spec in Cron.tla. *)
EXTENDS Cron, Json, IOUtils, TLCExt
VARIABLES tid, i, viol
Batch == JsonDeserialize(IOEnv.TRACE_FILE)
Init == tid \in 1..Len(Batch) /\ i = 0 /\ viol = {}
Next == /\ i < Len(Batch[tid].ev)
        /\ LET bad == CalcCheck(Batch[tid].cfg, Batch[tid].ev[i + 1])
           IN viol' = viol \cup {<<v, i + 1>> : v \in {w \in bad : \A p \in viol : p[1] # w}}
        /\ i' = i + 1
        /\ tid' = tid
Spec == Init /\ [][Next]_<<tid, i, viol>>
Report == (i = Len(Batch[tid].ev)) => PrintT(<<"VERDICT", tid, viol>>)
=============================================================================

------------------------------- MODULE ObsExc -------------------------------
EXTENDS ExcCodec, Json, IOUtils, TLCExt
VARIABLES tid, i, viol
Batch == JsonDeserialize(IOEnv.TRACE_FILE)
Init == tid \in 1..Len(Batch) /\ i = 0 /\ viol = {}
Next == /\ i < Len(Batch[tid].ev)
        /\ viol' = viol \cup {<<v, i + 1>> : v \in {w \in ExcCheck(Batch[tid].ev[i + 1]) : \A p \in viol : p[1] # w}}
        /\ i' = i + 1 /\ tid' = tid
Spec == Init /\ [][Next]_<<tid, i, viol>>
Report == (i = Len(Batch[tid].ev)) => PrintT(<<"VERDICT", tid, viol>>)
=============================================================================

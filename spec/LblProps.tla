------------------------------ MODULE LblProps ------------------------------
(***************************************************************************)
(* C16, label-based half: LabelScheduleSource lists exactly the cron/time   *)
(* entries declared on tasks of its own broker (order kept, invalid entries  *)
(* skipped, foreign-broker tasks excluded); after a one-shot entry fired it  *)
(* removes one entry with that time on that task and nothing else; a fired  *)
(* schedule produces exactly one message with its payload.                   *)
(* An entry is [k, t, a]: kind, time id (0 = none), payload id.              *)
(* `poss` = the set of entry tables the declaration history allows (firing   *)
(* may remove any ONE entry with that time: the statement does not say which).*)
(***************************************************************************)
EXTENDS Naturals, Sequences, FiniteSets, TLC, SequencesExt

Listable(e) == e.k \in {"cron", "time", "both"}
TaskSeq(c) == [i \in 1..Len(c.tasks) |-> c.tasks[i].entries]
(* `ad` = tasks that started on another broker (or in the shared registry) and were registered on the source's own     *)
(* broker later on: from then on they are tasks of its own broker.                                                    *)
ExpectedO(c, st, ad) ==
  FlattenSeq([i \in 1..Len(st) |->
     IF c.tasks[i].own \/ i \in ad
     THEN LET es == SelectSeq(st[i], Listable) IN [j \in 1..Len(es) |-> [task |-> i, k |-> es[j].k, t |-> es[j].t, a |-> es[j].a]]
     ELSE <<>>])
Expected(c, st) == ExpectedO(c, st, {})
DropAt(s, i) == [j \in 1..(Len(s) - 1) |-> IF j < i THEN s[j] ELSE s[j + 1]]

LblObsInit(c) == [poss |-> {TaskSeq(c)}, pk |-> <<>>, ad |-> {}]

LblFold(c, o, ev) ==
  CASE ev.e = "fire" ->
         [o EXCEPT !.pk = <<ev.task, ev.a>>,
                   !.poss = IF ev.k = "time"
                            THEN UNION {{[st EXCEPT ![ev.task] = DropAt(@, i)] :
                                           i \in {j \in DOMAIN st[ev.task] : st[ev.task][j].t = ev.t /\ st[ev.task][j].k \in {"time", "both"}}}
                                        : st \in o.poss}
                            ELSE @]
    [] ev.e = "kick" -> [o EXCEPT !.pk = <<>>]
    [] ev.e = "adopt" -> [o EXCEPT !.ad = @ \cup {ev.task}]
    [] ev.e = "list" -> [o EXCEPT !.poss = LET m == {st \in o.poss : ExpectedO(c, st, o.ad) = ev.items} IN IF m = {} THEN o.poss ELSE m]
    [] OTHER -> o

LblCheck(c, op, o, ev) ==
     (IF ev.e = "list" /\ ~\E st \in op.poss : ExpectedO(c, st, op.ad) = ev.items
      THEN (IF \E st \in op.poss : Len(ExpectedO(c, st, op.ad)) = Len(ev.items) THEN {"C16_Listing"} ELSE {"C16_RemoveOne"})
      ELSE {})
  \cup (IF ev.e \in {"list", "fire"} /\ op.pk # <<>> THEN {"C16_SendMissing"} ELSE {})
  \cup (IF ev.e = "kick" /\ (op.pk = <<>> \/ op.pk # <<ev.task, ev.a>> \/ ~ev.ok) THEN {"C16_LabelPayload"} ELSE {})
  \cup (IF ev.e = "fire" /\ ~\E st \in op.poss : \E i \in DOMAIN ExpectedO(c, st, op.ad) :
                                ExpectedO(c, st, op.ad)[i] = [task |-> ev.task, k |-> ev.k, t |-> ev.t, a |-> ev.a]
        THEN {"C16_FiredUnlisted"} ELSE {})
=============================================================================

------------------------------- MODULE Client -------------------------------
(***************************************************************************)
(* Model of the sending side of taskiq and of what travels with a message:  *)
(* decor.py (task.kicker / task.kiq), kicker.py (with_labels, with_task_id, *)
(* with_broker, kiq: pre_send.. -> kick -> post_send..), labels.py /        *)
(* message.py (typed labels over the wire), middlewares/retry_middleware.py *)
(* and context.py (requeue).  Objects have identity: a kicker either holds   *)
(* its own label dict or aliases the task's declared dict.                   *)
(*                                                                          *)
(* Deviation switches (what the code does vs. the ideal of ClProps):        *)
(*   KickerAliasesTaskLabels - task.kicker() hands the task's own labels    *)
(*       dict to the kicker and with_labels() updates it in place (D4)      *)
(*   RequeueRePrepares - Context.requeue() re-encodes labels for the wire   *)
(*       (FALSE = pre-fix: parsed values are dumped with the old type tags, *)
(*        D5: non-finite floats / bytes do not survive)                     *)
(***************************************************************************)
EXTENDS ClProps, SequencesExt

CONSTANTS KickerAliasesTaskLabels, RequeueRePrepares, Cfgs, MaxOps, WlNames, WlVids, AllowedViol

VARIABLES cfg, decl, kk, idn, msgs, nops, out, obs, viol
kvars == <<cfg, decl, kk, idn, msgs, nops>>
vars == <<kvars, out, obs, viol>>

E0 == [e |-> "", k |-> 0, n |-> "", v |-> 0, x |-> 0, j |-> 0, i |-> 0, g |-> 0, s |-> "", ok |-> TRUE,
       tid |-> 0, br |-> 0, lab |-> <<>>, pt |-> ""]
DeclEv(d) == [E0 EXCEPT !.e = "decl", !.lab = LabSeq(d)]

SendEvs(c, lab, tid, br, ok, gen0, hooks, j, dec) ==
  LET exp == ExpectedSend(c, gen0, ok, hooks) IN
  [q \in 1..Len(exp) |->
     IF exp[q][1] = "kick"
     THEN [E0 EXCEPT !.e = "kick", !.j = j, !.tid = tid, !.br = br, !.lab = IF dec = "ok" THEN LabSeq(lab) ELSE <<>>,
                     !.ok = ok, !.s = dec, !.g = IF dec = "ok" THEN exp[q][3] ELSE 0]
     ELSE [E0 EXCEPT !.e = exp[q][1], !.i = exp[q][2], !.g = exp[q][3], !.tid = tid]]

Corrupting(c, f) == \E n \in Names : f[n] # 0 /\ (c.vals[f[n]].kind = "bytes" \/ c.vals[f[n]].cls = "nonfinite")

EmitStep(acc, ev) == LET o2 == TLCEval(ClFold(cfg, acc.o, ev))
                     IN [o |-> o2, v |-> acc.v \cup ClCheck(cfg, acc.o, o2, ev)]
Emit(evs) == /\ out' = evs
             /\ LET res == TLCEval(FoldLeft(EmitStep, [o |-> obs, v |-> viol], evs))
                IN obs' = res.o /\ viol' = res.v

InitWith(c) ==
  /\ cfg = c
  /\ decl = LabFun(c.decl)
  /\ kk = [q \in 1..c.nk |-> [made |-> FALSE, alias |-> FALSE, own |-> NoLab, tid |-> 0, br |-> 1]]
  /\ idn = 0
  /\ msgs = <<>>
  /\ nops = 0
  /\ out = <<DeclEv(LabFun(c.decl))>>
  /\ obs = ClObsInit(c)
  /\ viol = {}
Init == \E c \in Cfgs : InitWith(c)

Step == nops' = nops + 1 /\ UNCHANGED cfg

NewK(q) ==
  /\ kk' = [kk EXCEPT ![q] = [made |-> TRUE, alias |-> KickerAliasesTaskLabels, own |-> decl, tid |-> 0, br |-> 1]]
  /\ Emit(<<[E0 EXCEPT !.e = "newk", !.k = q], DeclEv(decl)>>)
  /\ Step /\ UNCHANGED <<decl, idn, msgs>>

WL(q, n, v) ==
  /\ kk[q].made
  /\ IF kk[q].alias
     THEN /\ decl' = [decl EXCEPT ![n] = v]
          /\ kk' = kk
     ELSE /\ kk' = [kk EXCEPT ![q].own[n] = v]
          /\ decl' = decl
  /\ Emit(<<[E0 EXCEPT !.e = "wl", !.k = q, !.n = n, !.v = v], DeclEv(decl')>>)
  /\ Step /\ UNCHANGED <<idn, msgs>>

WTid(q, x) ==
  /\ kk[q].made
  /\ kk' = [kk EXCEPT ![q].tid = x]
  /\ Emit(<<[E0 EXCEPT !.e = "wtid", !.k = q, !.x = x], DeclEv(decl)>>)
  /\ Step /\ UNCHANGED <<decl, idn, msgs>>

WBr(q) ==
  /\ kk[q].made
  /\ kk' = [kk EXCEPT ![q].br = 2]
  /\ Emit(<<[E0 EXCEPT !.e = "wbr", !.k = q], DeclEv(decl)>>)
  /\ Step /\ UNCHANGED <<decl, idn, msgs>>

Kiq(q, ok) ==
  /\ (IF q = 0 THEN TRUE ELSE kk[q].made)
  /\ LET lab == IF q = 0 THEN decl ELSE IF kk[q].alias THEN decl ELSE kk[q].own
         custom == q # 0 /\ kk[q].tid # 0
         tid == IF custom THEN kk[q].tid ELSE 100 + idn + 1
         br == IF q = 0 THEN 1 ELSE kk[q].br
         j == Len(msgs) + 1
     IN /\ idn' = IF custom THEN idn ELSE idn + 1
        /\ msgs' = Append(msgs, [lab |-> lab, tid |-> tid, br |-> br, ok |-> ok, gen |-> IF br = 1 THEN TotalGen(cfg) ELSE 0,
                                 ran |-> FALSE, bad |-> FALSE])
        /\ Emit(<<[E0 EXCEPT !.e = "kiq", !.k = q, !.ok = ok]>>
                \o SendEvs(cfg, lab, tid, br, ok, 0, br = 1, j, "ok")
                \o <<[E0 EXCEPT !.e = "kiqret", !.s = IF ok THEN "ok" ELSE "SendTaskError"], DeclEv(decl)>>)
  /\ Step /\ UNCHANGED <<decl, kk>>

(* worker side: message j is delivered and executed once, body behaves per mode *)
Run(j, mode) ==
  /\ j \in DOMAIN msgs /\ msgs[j].ok /\ ~msgs[j].ran
  /\ LET m == msgs[j]
         D == m.lab
         j2 == Len(msgs) + 1
         hd == <<[E0 EXCEPT !.e = "run", !.j = j, !.s = mode]>>
         tl == <<[E0 EXCEPT !.e = "ran", !.j = j, !.s = "ok"], DeclEv(decl)>>
         seen(pt, f) == [E0 EXCEPT !.e = "seen", !.pt = pt, !.j = j, !.tid = m.tid, !.lab = LabSeq(f)]
         body == <<seen("mw", D), [E0 EXCEPT !.e = "exec", !.j = j, !.tid = m.tid, !.x = 5, !.s = "z"], seen("ctx", D)>>
         save(okk, cls, f) == <<[E0 EXCEPT !.e = "save", !.j = j, !.tid = m.tid, !.ok = okk, !.s = cls], seen("res", f)>>
         mark == [msgs EXCEPT ![j].ran = TRUE]
     IN
     IF m.bad THEN /\ msgs' = mark /\ Emit(hd \o tl)
     ELSE CASE mode = "ok" -> /\ msgs' = mark /\ Emit(hd \o body \o <<seen("post", D)>> \o save(TRUE, "none", D) \o tl)
            [] mode = "nores" -> /\ msgs' = mark /\ Emit(hd \o body \o <<seen("post", D)>> \o tl)
            [] mode \in FailModes ->
                 LET en == cfg.retry.on /\ RetryEnabled(cfg, D)
                     retries == (IF D["_retries"] = 0 THEN 0 ELSE IntOfVid(D["_retries"])) + 1
                     D2 == [D EXCEPT !["_retries"] = IntVid(retries)]
                     resend == en /\ retries < MaxRetries(cfg, D)
                 IN IF ~en THEN /\ msgs' = mark /\ Emit(hd \o body \o <<seen("post", D)>> \o save(FALSE, IF mode = "fail" THEN "BodyFail" ELSE "BodyFailBase", D) \o tl)
                    ELSE IF resend
                    THEN /\ msgs' = Append(mark, [lab |-> D2, tid |-> m.tid, br |-> 1, ok |-> TRUE,
                                                  gen |-> m.gen + TotalGen(cfg), ran |-> FALSE, bad |-> FALSE])
                         /\ Emit(hd \o body \o SendEvs(cfg, D2, m.tid, 1, TRUE, m.gen, TRUE, j2, "ok") \o <<seen("post", D2)>>
                                 \o (IF cfg.retry.nores THEN <<>> ELSE save(FALSE, IF mode = "fail" THEN "BodyFail" ELSE "BodyFailBase", D)) \o tl)
                    ELSE /\ msgs' = mark /\ Emit(hd \o body \o <<seen("post", D2)>> \o save(FALSE, IF mode = "fail" THEN "BodyFail" ELSE "BodyFailBase", D) \o tl)
            [] OTHER ->  \* requeue
                 LET D3 == [D EXCEPT !["X-Taskiq-requeue"] = ReqVid(ReqOfVid(@) + 1)]
                     bad == ~RequeueRePrepares /\ Corrupting(cfg, D3)
                 IN /\ msgs' = Append(mark, [lab |-> D3, tid |-> m.tid, br |-> 1, ok |-> TRUE, gen |-> m.gen,
                                             ran |-> FALSE, bad |-> bad])
                    /\ Emit(hd \o body \o SendEvs(cfg, D3, m.tid, 1, TRUE, m.gen, FALSE, j2, IF bad THEN "undecodable" ELSE "ok")
                            \o <<seen("post", D3)>> \o tl)
  /\ Step /\ UNCHANGED <<decl, kk, idn>>

Modes == {"ok", "fail", "failb", "nores", "requeue"}
Next ==
  /\ nops < MaxOps
  /\ \/ \E q \in 1..cfg.nk : NewK(q) \/ WBr(q) \/ (\E x \in {3} : WTid(q, x))
        \/ (\E n \in WlNames : \E v \in WlVids : WL(q, n, v))
     \/ \E q \in 0..cfg.nk : \E ok \in BOOLEAN : Kiq(q, ok)
     \/ \E j \in DOMAIN msgs : \E mode \in Modes : Run(j, mode)
Spec == Init /\ [][Next]_vars

NoViolation == viol \subseteq AllowedViol
(* model-level statement of C09's second half: the declared labels never change *)
DeclStable == decl = LabFun(cfg.decl)
(* model-level statement of C11's bound: attempts of one task id never exceed max(1, max_retries) *)
AttemptBound ==
  \A j \in DOMAIN msgs :
     LET r == IF msgs[j].lab["_retries"] = 0 THEN 0 ELSE IntOfVid(msgs[j].lab["_retries"])
     IN r + 1 <= Max2(1, MaxRetries(cfg, msgs[j].lab))
=============================================================================

------------------------------ MODULE ExcCodec ------------------------------
(***************************************************************************)
(* C19 - any task exception survives result serialisation;                  *)
(* C20 - loading a stored error never instantiates a non-exception.          *)
(* Transcription of taskiq/serialization.py as decision tables with state:   *)
(*  - encode: the walk over the cause/context graph with the SEEN set        *)
(*    (add on entry, discard on exit: SEEN is the current PATH), so the      *)
(*    decoded object is the path-unfolding of the graph cut at back edges;   *)
(*  - decode: module lookup in loaded modules only, attribute walk, the      *)
(*    "is a BaseException subclass" gate, cls(args...) with a generic          *)
(*    fallback, recursion into cause and context.                            *)
(* Exception graph: sequence of nodes [c, a, cause, context, sup];           *)
(* payload: nested records [t, k, a, cause, context], k = kind the name      *)
(* resolves to in the fixture world.                                         *)
(***************************************************************************)
EXTENDS Naturals, Sequences, FiniteSets, TLC

(* ---------------------------------------------------------------- C20 *)
ExcKinds == {"exc", "exc_noinit"}
ForeignKinds == {"func", "cls", "inst", "module"}          \* resolves to something that is not an exception class
SynthKinds == {"missing", "notloaded", "nomodule"}         \* cannot be resolved: synthetic class of that name
IsNil(p) == p.k = "nil"
RECURSIVE Poisoned(_)
Poisoned(p) == ~IsNil(p) /\ (p.k \in ForeignKinds \/ (p.k \notin ForeignKinds /\ (Poisoned(p.cause) \/ Poisoned(p.context))))
(* what the decoder must produce for the top-level payload *)
ExpectedRes(p) == IF Poisoned(p) THEN "security" ELSE "exc"
ExpectedClsKind(p) == CASE p.k = "exc" -> {"resolved"}
                        [] p.k = "exc_noinit" -> {"resolved", "generic"}
                        [] OTHER -> {"synthetic"}
(* which class comes back: only for payloads that go through name resolution (not the pickle-flavoured stand-in object) *)
C20Resolution(ev) ==
     (IF Poisoned(ev.p) /\ ev.res = "exc" THEN {"C20_Nested"} ELSE {})
  \cup (IF ~Poisoned(ev.p) /\ ev.res # "exc" THEN {"C20_RejectedGood"} ELSE {})
  \cup (IF ev.res = "exc" /\ ~Poisoned(ev.p) /\ ev.p.k \in SynthKinds /\ (ev.cls_kind # "synthetic" \/ ~ev.name_ok)
        THEN {"C20_Synthetic"} ELSE {})
  \cup (IF ev.res = "exc" /\ ~Poisoned(ev.p) /\ ev.p.k \in ExcKinds /\ ev.cls_kind \notin ExpectedClsKind(ev.p)
        THEN {"C20_Resolved"} ELSE {})
  \cup (IF ev.second \notin {"n/a", "resolved"} THEN {"C19_ResolvedOnceLoaded"} ELSE {})

C20Check(ev) ==
     (IF ev.called # 0 THEN {"C20_NoForeignCall"} ELSE {})
  \cup (IF ev.imported # 0 THEN {"C20_NoImport"} ELSE {})
  \cup (IF ev.res \notin {"exc", "security", "validation"} THEN {"C20_Outcome"} ELSE {})
  \cup (IF ev.wrap THEN {} ELSE C20Resolution(ev))

(* ---------------------------------------------------------------- C19 *)
Importable == {"builtin", "builtin2", "module", "nested", "baseonly", "eqhash", "dcerr", "attr"}
Rebuildable == Importable \cup {"local", "dynamic"}            \* cls(args...) reproduces the instance
(* text with lone surrogates is not valid JSON text: replaced by its text form there, kept by pickle (FX-C19-1) *)
ArgsRepr(enc, a) == a \in {"none", "json", "const"} \/ (enc = "pickle" /\ a \in {"picklable", "surrogate"})
(* custominit / kwonly / mid store their own args via super().__init__: representable iff those are plain *)
NodeArgsRepr(enc, nd) == IF nd.c \in {"custominit", "kwonly", "mid", "dcerr"} THEN TRUE ELSE ArgsRepr(enc, nd.a)
MustBeFaithful(enc, nd) == nd.c \in Importable /\ nd.c \in Rebuildable /\ NodeArgsRepr(enc, nd)
(* pickle keeps any picklable exception object as it is *)
PickleKeeps(nd) == nd.c \in (Importable \cup {"custominit_x"}) /\ nd.a \in {"none", "json", "picklable", "surrogate"}

NodeOK(enc, nd, t) ==
  /\ t.is_exc
  /\ ~t.unrelated
  /\ IF MustBeFaithful(enc, nd) THEN t.same_class /\ t.args_equal
     ELSE t.same_class \/ t.names_original \/ t.base_of_original

RECURSIVE TreeOK(_, _, _, _, _)
(* t = observed tree at original node n reached along `path` (set of node indexes on the way, n excluded) *)
TreeOK(enc, g, t, n, path) ==
  LET nd == g[n]
      p2 == path \cup {n}
      expCause == nd.cause # 0 /\ nd.cause \notin p2
      expCtx == nd.context # 0 /\ ~nd.sup /\ nd.context \notin p2
  IN /\ ~t.nil /\ t.n = n
     /\ NodeOK(enc, nd, t)
     /\ t.sup = nd.sup
     /\ IF expCause THEN TreeOK(enc, g, t.cause, nd.cause, p2) ELSE t.cause.nil
     /\ IF expCtx THEN TreeOK(enc, g, t.context, nd.context, p2) ELSE t.context.nil

C19Check(ev) ==
  IF ev.res # "ok" THEN {"C19_Total"}
  ELSE IF ev.tree.nil THEN {"C19_Lost"}
  ELSE (IF ~NodeOK(ev.enc, ev.g[ev.root], ev.tree) THEN {"C19_Class"} ELSE {})
       \cup (IF ev.enc \in {"json", "dict"} /\ NodeOK(ev.enc, ev.g[ev.root], ev.tree) /\ ~TreeOK(ev.enc, ev.g, ev.tree, ev.root, {})
             THEN {"C19_Chain"} ELSE {})

ExcCheck(ev) == IF ev.e = "load" THEN C20Check(ev) ELSE C19Check(ev)

(* ------------- self-check: the unfolding is finite and no deeper than the graph (model-checked) ------------- *)
RECURSIVE Depth(_, _, _)
Depth(g, n, path) ==
  LET p2 == path \cup {n}
      dc == IF g[n].cause # 0 /\ g[n].cause \notin p2 THEN Depth(g, g[n].cause, p2) ELSE 0
      dx == IF g[n].context # 0 /\ ~g[n].sup /\ g[n].context \notin p2 THEN Depth(g, g[n].context, p2) ELSE 0
  IN 1 + (IF dc >= dx THEN dc ELSE dx)
=============================================================================

---------------------------- MODULE TraceSched ----------------------------
(* Conformance of recorded scheduler traces to Scheduler.tla.  Time passes  *)
(* silently up to the next recorded event or the next model timer.          *)
EXTENDS Scheduler, Json, IOUtils, TLCExt
VARIABLES tid, l
Batch == JsonDeserialize(IOEnv.TRACE_FILE)
T == Batch[tid].ev
tvars == <<vars, tid, l>>
Match == LET n == Len(out') IN
         IF n = 0 THEN l' = l
         ELSE /\ l + n - 1 <= Len(T)
              /\ \A q \in 1..n : out'[q] = T[l + q - 1]
              /\ l' = l + n
TraceInit == /\ tid \in 1..Len(Batch) /\ InitWith(Batch[tid].cfg) /\ l = 1 /\ TLCSet(tid, 1)
TraceNext ==
  /\ l <= Len(T)
  /\ \/ (Internal /\ Match)
     \/ (\E t \in Timers \cup {T[l].t} : t <= T[l].t /\ Advance(t) /\ l' = l)
     \/ (T[l].e = "add" /\ AddS(T[l].src, [sid |-> T[l].sid, kind |-> T[l].s, mins |-> T[l].ids, T |-> T[l].n, cancel |-> ~T[l].ok]) /\ Match)
     \/ (T[l].e = "remove" /\ RemoveS(T[l].src, T[l].sid) /\ Match)
     \/ (T[l].e = "remove" /\ ~(\E x \in sch : x.sid = T[l].sid /\ x.src = T[l].src) /\ Quiescent /\ now = T[l].t
         /\ l' = l + 1 /\ UNCHANGED vars)
     \/ (T[l].e = "eot" /\ Eot /\ Match)
  /\ tid' = tid
TraceSpec == TraceInit /\ [][TraceNext]_tvars
Progress == TLCGet(tid) >= l \/ TLCSet(tid, l)
Done == \A t \in 1..Len(Batch) : PrintT(<<"MAXL", t, TLCGet(t), Len(Batch[t].ev) + 1>>)
=============================================================================

------------------------------ MODULE ClProps ------------------------------
(***************************************************************************)
(* Properties C09 (labels typed end to end, per-call customisation never    *)
(* leaks), C10 send side (pre_send / kick / post_send order, SendTaskError)  *)
(* and C11 (retry middleware) stated once over observable events of the     *)
(* client/worker API (harness/cl_driver.py).  Label values are ids into a   *)
(* pool of concrete values; id 0 = "not the value that was sent".           *)
(* ClFold computes the IDEAL expectation from the history of calls;         *)
(* ClCheck compares what the code did with it.                              *)
(***************************************************************************)
EXTENDS Naturals, Integers, Sequences, FiniteSets, TLC

UserNames == {"a", "b", "_c"}       \* one user label starts with an underscore, like the worker's own bookkeeping labels
DeclNames == UserNames \cup {"max_retries", "retry_on_error", "timeout"}
Names == DeclNames \cup {"_retries", "X-Taskiq-requeue"}
NameOrder == <<"X-Taskiq-requeue", "_c", "_retries", "a", "b", "max_retries", "retry_on_error", "timeout">>
NoLab == [n \in Names |-> 0]

HasUnknownName(seq) == \E i \in DOMAIN seq : seq[i].n \notin Names
LabFun(seq) == [n \in Names |-> IF \E i \in DOMAIN seq : seq[i].n = n
                                THEN seq[CHOOSE i \in DOMAIN seq : seq[i].n = n].v ELSE 0]
LabSeq(f) == LET ns == SelectSeq(NameOrder, LAMBDA n : f[n] # 0)
             IN [i \in 1..Len(ns) |-> [n |-> ns[i], v |-> f[ns[i]]]]
Restrict(f, S) == [n \in S |-> f[n]]

IntVid(x) == 20 + x              \* ids 20..26 are the ints 0..6
IntOfVid(v) == IF v \in 20..26 THEN v - 20 ELSE -1
ReqVid(x) == 30 + x              \* ids 31..35 are the strings "1".."5"
ReqOfVid(v) == IF v = 0 THEN 0 ELSE v - 30
TrueLike == {7, 27, 10}          \* True, "True", "true"
Max2(a, b) == IF a >= b THEN a ELSE b
FailModes == {"fail", "failb", "failk"}     \* failk: the attempt fails AND the broker refuses the re-send

MaxRetries(c, f) == IF f["max_retries"] = 0 THEN c.retry.defcount ELSE IntOfVid(f["max_retries"])
RetryEnabled(c, f) == IF f["retry_on_error"] = 0 THEN c.retry.deflabel ELSE f["retry_on_error"] \in TrueLike

(* ---- send-hook expectations (C10 send side) ---- *)
NMw(c) == Len(c.mws)
PreIdx(c) == SelectSeq([i \in 1..NMw(c) |-> i], LAMBDA i : c.mws[i].pre # "")
PostIdx(c) == SelectSeq([i \in 1..NMw(c) |-> i], LAMBDA i : c.mws[i].post # "")
GenBefore(c, i) == Cardinality({j \in 1..(i - 1) : c.mws[j].pre # "" /\ c.mws[j].replace})
TotalGen(c) == Cardinality({j \in 1..NMw(c) : c.mws[j].pre # "" /\ c.mws[j].replace})
ExpectedSend(c, gen0, ok, hooks) ==
  IF ~hooks THEN <<<<"kick", 0, gen0>>>>
  ELSE [q \in 1..Len(PreIdx(c)) |-> <<"presend", PreIdx(c)[q], gen0 + GenBefore(c, PreIdx(c)[q])>>]
       \o <<<<"kick", 0, gen0 + TotalGen(c)>>>>
       \o (IF ok THEN [q \in 1..Len(PostIdx(c)) |-> <<"postsend", PostIdx(c)[q], gen0 + TotalGen(c)>>] ELSE <<>>)
IsPrefixOf(a, b) == Len(a) <= Len(b) /\ \A i \in DOMAIN a : a[i] = b[i]

--------------------------------------------------------------------------
NoSnd == [active |-> FALSE, exp |-> NoLab, etid |-> 0, ebr |-> 1, ok |-> TRUE, seq |-> <<>>, origin |-> "", gen0 |-> 0, att |-> 1,
          noser |-> FALSE]     \* noser: an argument cannot be serialised - the send fails before the broker is reached
PreOnly(c, gen0) == [q \in 1..Len(PreIdx(c)) |-> <<"presend", PreIdx(c)[q], gen0 + GenBefore(c, PreIdx(c)[q])>>]
NoRun == [active |-> FALSE, j |-> 0, mode |-> "", kicks |-> 0, saves |-> 0, saveErr |-> FALSE, execs |-> 0]
NoMsg == [exp |-> NoLab, tid |-> 0, att |-> 0, gen |-> 0, sent |-> FALSE]

ClObsInit(c) ==
  [ decl0 |-> LabFun(c.decl),
    kk |-> [q \in 1..c.nk |-> [made |-> FALSE, own |-> NoLab, tid |-> 0, br |-> 1]],
    used |-> {},          \* task ids seen on the wire so far
    snd |-> NoSnd, run |-> NoRun,
    msg |-> <<>> ]        \* j -> what message j ideally is

ClFold(c, o, ev) ==
  CASE ev.e = "newk" -> [o EXCEPT !.kk[ev.k] = [made |-> TRUE, own |-> o.decl0, tid |-> 0, br |-> 1]]
    [] ev.e = "wl" -> [o EXCEPT !.kk[ev.k].own[ev.n] = ev.v]
    [] ev.e = "wtid" -> [o EXCEPT !.kk[ev.k].tid = ev.x]
    [] ev.e = "wbr" -> [o EXCEPT !.kk[ev.k].br = 2]
    [] ev.e = "kiq" ->
         [o EXCEPT !.snd = [active |-> TRUE, exp |-> IF ev.k = 0 THEN o.decl0 ELSE o.kk[ev.k].own,
                            etid |-> IF ev.k = 0 THEN 0 ELSE o.kk[ev.k].tid,
                            ebr |-> IF ev.k = 0 THEN 1 ELSE o.kk[ev.k].br, ok |-> ev.ok, seq |-> <<>>,
                            origin |-> "kiq", gen0 |-> 0, att |-> 1, noser |-> ev.s = "noser"]]
    [] ev.e \in {"presend", "postsend", "kick"} ->
         LET par == IF o.run.active /\ o.run.j \in DOMAIN o.msg THEN o.msg[o.run.j] ELSE NoMsg
             s0 == IF o.snd.active THEN o.snd
                   ELSE IF o.run.active /\ o.run.mode = "requeue"
                   THEN [NoSnd EXCEPT !.active = TRUE, !.origin = "requeue", !.etid = par.tid, !.gen0 = par.gen, !.att = par.att,
                                      !.exp = [par.exp EXCEPT !["X-Taskiq-requeue"] = ReqVid(ReqOfVid(@) + 1)]]
                   ELSE [NoSnd EXCEPT !.active = TRUE, !.origin = "retry", !.etid = par.tid, !.gen0 = par.gen, !.att = par.att + 1,
                                      !.exp = [par.exp EXCEPT !["_retries"] = IntVid(par.att)]]
             s1 == [s0 EXCEPT !.seq = Append(@, <<ev.e, ev.i, ev.g>>)]
         IN IF ev.e = "kick"
            THEN [o EXCEPT !.snd = s1, !.used = @ \cup {ev.tid},
                           !.run.kicks = IF o.run.active THEN @ + 1 ELSE @,
                           !.msg = [q \in 1..Max2(Len(o.msg), ev.j) |->
                                      IF q = ev.j THEN [exp |-> s0.exp, tid |-> ev.tid, att |-> s0.att, gen |-> ev.g, sent |-> ev.ok]
                                      ELSE IF q \in DOMAIN o.msg THEN o.msg[q] ELSE NoMsg]]
            ELSE [o EXCEPT !.snd = s1]
    [] ev.e = "kiqret" -> [o EXCEPT !.snd = NoSnd]
    [] ev.e = "run" -> [o EXCEPT !.run = [NoRun EXCEPT !.active = TRUE, !.j = ev.j, !.mode = ev.s], !.snd = NoSnd]
    [] ev.e = "exec" -> [o EXCEPT !.run.execs = @ + 1]
    [] ev.e = "save" -> [o EXCEPT !.run.saves = @ + 1, !.run.saveErr = ~ev.ok]
    [] ev.e = "ran" -> [o EXCEPT !.run = NoRun, !.snd = NoSnd]
    [] OTHER -> o

--------------------------------------------------------------------------
(* op = summary BEFORE the event, o = summary AFTER it *)
ClCheck(c, op, o, ev) ==
  LET sn == o.snd
      Hk(x) == x.origin # "requeue" /\ x.ebr = 1   \* the middlewares belong to broker 1
      par == IF op.run.active /\ op.run.j \in DOMAIN op.msg THEN op.msg[op.run.j] ELSE NoMsg
  IN
  (* ---------------- C09 ---------------- *)
     (IF ev.e = "decl" /\ (HasUnknownName(ev.lab) \/ LabFun(ev.lab) # o.decl0) THEN {"C09_NoLeak"} ELSE {})
  \cup (IF ev.e = "kick" /\ sn.origin = "kiq" /\ (HasUnknownName(ev.lab) \/ LabFun(ev.lab) # sn.exp \/ ev.s # "ok")
        THEN {"C09_SendLabels"} ELSE {})
  \cup (IF ev.e = "kick" /\ sn.origin = "kiq"
           /\ ~(IF sn.etid # 0 THEN ev.tid = sn.etid ELSE ev.tid >= 100 /\ ev.tid \notin op.used)
        THEN {"C09_SendTaskId"} ELSE {})
  \cup (IF ev.e = "kick" /\ sn.origin = "kiq" /\ ev.br # sn.ebr THEN {"C09_SendBroker"} ELSE {})
  \cup (IF ev.e = "kick" /\ sn.origin \in {"retry", "requeue"}
           /\ (HasUnknownName(ev.lab) \/ LabFun(ev.lab) # sn.exp \/ ev.s # "ok")
        THEN {"C09_ResendLabels"} ELSE {})
  \cup (IF ev.e = "seen" /\ ev.j \in DOMAIN o.msg
           /\ (HasUnknownName(ev.lab)
               \/ Restrict(LabFun(ev.lab), DeclNames) # Restrict(o.msg[ev.j].exp, DeclNames)
               \/ (ev.pt \in {"mw", "ctx", "res"} /\ LabFun(ev.lab) # o.msg[ev.j].exp))
        THEN {"C09_TypedEndToEnd"} ELSE {})
  \cup (IF ev.e \in {"seen", "exec", "save"} /\ ev.j \in DOMAIN o.msg /\ ev.tid # o.msg[ev.j].tid
        THEN {"C09_TaskIdAtWorker"} ELSE {})
  \cup (IF ev.e = "ran" /\ op.run.mode = "requeue" /\ op.run.kicks = 0 THEN {"C09_RequeueLost"} ELSE {})
  (* ---------------- C10 send side ---------------- *)
  \cup (IF ev.e \in {"presend", "postsend", "kick"} /\ ~sn.noser
           /\ ~(\E okk \in BOOLEAN : (ev.e = "kick" => okk = ev.ok) /\ (sn.origin = "kiq" => okk = sn.ok)
                                      /\ IsPrefixOf(sn.seq, ExpectedSend(c, sn.gen0, okk, Hk(sn))))
        THEN {"C10_SendOrder"} ELSE {})
  \cup (IF ev.e \in {"presend", "postsend", "kick"} /\ sn.noser /\ ~IsPrefixOf(sn.seq, PreOnly(c, sn.gen0))
        THEN {"C10_SendOrder"} ELSE {})
  \cup (IF ev.e = "kiqret" /\ op.snd.active /\ ~op.snd.noser
           /\ (op.snd.seq # ExpectedSend(c, op.snd.gen0, op.snd.ok, Hk(op.snd))
               \/ ev.s # (IF op.snd.ok THEN "ok" ELSE "SendTaskError"))
        THEN {"C10_SendComplete"} ELSE {})
  \cup (IF ev.e = "kiqret" /\ op.snd.active /\ op.snd.noser
           /\ (op.snd.seq # (IF Hk(op.snd) THEN PreOnly(c, op.snd.gen0) ELSE <<>>) \/ ev.s # "SendTaskError")
        THEN {"C10_SendComplete"} ELSE {})
  \cup (IF ev.e = "kiqret" /\ ~op.snd.active THEN {"C10_SendComplete"} ELSE {})
  \cup (IF ev.e = "ran" /\ op.snd.active /\ op.snd.seq # ExpectedSend(c, op.snd.gen0, op.run.mode # "failk", Hk(op.snd))
        THEN {"C10_SendComplete"} ELSE {})
  (* ---------------- C11 ---------------- *)
  \cup (IF ev.e = "kick" /\ sn.origin \in {"retry", "requeue"} /\ ev.tid # sn.etid THEN {"C11_SameTaskId"} ELSE {})
  \cup (IF ev.e = "ran" /\ op.run.j \in DOMAIN op.msg THEN
          LET mx == MaxRetries(c, par.exp)
              resend == op.run.mode \in FailModes /\ c.retry.on /\ RetryEnabled(c, par.exp) /\ par.att < mx
              expKicks == IF resend \/ op.run.mode = "requeue" THEN 1 ELSE 0
              refused == op.run.mode = "failk" /\ resend
              expSaves == CASE op.run.mode = "ok" -> 1
                            [] refused -> 0
                            [] op.run.mode \in {"nores", "requeue"} -> 0
                            [] OTHER -> IF resend /\ c.retry.nores THEN 0 ELSE 1
          IN (IF op.run.mode # "requeue" /\ op.run.kicks # expKicks
              THEN {IF op.run.kicks > expKicks THEN "C11_Bound" ELSE "C11_Continues"} ELSE {})
             \cup (IF op.run.saves # expSaves \/ (op.run.saves = 1 /\ op.run.saveErr # (op.run.mode \in FailModes))
                   THEN {"C11_Results"} ELSE {})
             \cup (IF op.run.execs # 1 THEN {"C11_ExecOnce"} ELSE {})
             (* an attempt that could neither be re-sent nor left a result must not end as if all was well (the message *)
             (* would be acknowledged and the task silently lost)                                                         *)
             \cup (IF refused /\ ev.s # "raised" THEN {"C11_Lost"} ELSE {})
             \cup (IF ~refused /\ ev.s # "ok" THEN {"C11_Crashed"} ELSE {})
        ELSE {})
  \cup (IF ev.e = "exec" /\ ev.j \in DOMAIN o.msg /\ (ev.x # 5 \/ ev.s # "z") THEN {"C11_SameArgs"} ELSE {})
=============================================================================

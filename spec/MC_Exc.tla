------------------------------- MODULE MC_Exc -------------------------------
(* Exhaustive self-check of the chain unfolding over all graphs of N nodes:  *)
(* terminates, depth <= N, and a cut happens exactly at links into the path. *)
EXTENDS ExcCodec
CONSTANT N
VARIABLE g
NodeSet == [c : {"module"}, a : {"json"}, cause : 0..N, context : 0..N, sup : BOOLEAN]
Init == g \in [1..N -> NodeSet]
Next == UNCHANGED g
Spec == Init /\ [][Next]_g
UnfoldOK == \A r \in 1..N : Depth(g, r, {}) \in 1..N
=============================================================================

------------------------------ MODULE SchProps ------------------------------
(***************************************************************************)
(* C15 (scheduler loop sends each due schedule once per occurrence, minute  *)
(* after minute, faults isolated) and the on_ready half of C16 (pre_send /  *)
(* cancel / payload / post_send), stated once over observable events:       *)
(* ScheduleSource.get_schedules calls ("poll"/"listed"), source callbacks    *)
(* ("presend"/"postsend"), AsyncBroker.kick ("kick"), environment changes.   *)
(* Time is in cfg units: cfg.minute units per minute, cfg.second per second  *)
(* (real traces: milliseconds; model-checking configs: a short minute).      *)
(* cron schedules carry the set of minute indexes (mod 60) they match.       *)
(***************************************************************************)
EXTENDS Naturals, Integers, Sequences, FiniteSets, TLC

Max2(a, b) == IF a >= b THEN a ELSE b
RangeS(s) == {s[i] : i \in DOMAIN s}
MaxLat(c) == LET L == {c.srcs[i].lat : i \in DOMAIN c.srcs} IN IF L = {} THEN 0 ELSE CHOOSE x \in L : \A y \in L : y <= x
MinuteOf(c, t) == t \div c.minute
HorizonOf(c, t) == (MinuteOf(c, t) + 1) * c.minute + c.second
CronDue(c, s, t) == (MinuteOf(c, t) % 60) \in RangeS(s.mins)

(* schedule records currently in a source: [src, sid, kind, mins, T, cancel] *)
InitSched(c) == UNION {{[src |-> i, sid |-> c.srcs[i].sched[j].sid, kind |-> c.srcs[i].sched[j].kind,
                         mins |-> c.srcs[i].sched[j].mins, T |-> c.srcs[i].sched[j].T, cancel |-> c.srcs[i].sched[j].cancel]
                        : j \in DOMAIN c.srcs[i].sched} : i \in DOMAIN c.srcs}
Cancels(c, s) == s.cancel /\ c.srcs[s.src].pre # ""      \* only a source with a pre_send hook can cancel
AllSids(c, o) == {s.sid : s \in o.sch} \cup DOMAIN o.once

SchObsInit(c) ==
  [ sch |-> InitSched(c),
    known |-> InitSched(c),                          \* every schedule ever present (specs by sid)
    pollN |-> [i \in DOMAIN c.srcs |-> 0],
    pollT |-> [i \in DOMAIN c.srcs |-> -1],
    exp |-> {},                                      \* <<sid, minute>> cron occurrences that must be sent
    ck |-> <<>>,                                     \* cron kick attempts: <<sid, minute>>
    once |-> [x \in {} |-> 0],                       \* sid -> [T, firstDue, kicks (times), oks]
    fs |-> [x \in {} |-> 0],                         \* sid -> on_ready counters [pre, kick, kok, post]
    lastRound |-> -1,                                \* minute index of the last poll round
    now |-> c.start ]

SpecOf(o, sid) == CHOOSE s \in o.known : s.sid = sid
OnceRec(o, sid) == IF sid \in DOMAIN o.once THEN o.once[sid] ELSE [T |-> SpecOf(o, sid).T, firstDue |-> -1, kicks |-> <<>>, oks |-> 0]
Upd(f, k, v) == [x \in DOMAIN f \cup {k} |-> IF x = k THEN v ELSE f[x]]
Get(f, k, d) == IF k \in DOMAIN f THEN f[k] ELSE d
Fs0 == [pre |-> 0, kick |-> 0, kok |-> 0, post |-> 0]
FsOf(o, sid) == Get(o.fs, sid, Fs0)

SchFold(c, o, ev) ==
  LET o1 == [o EXCEPT !.now = ev.t] IN
  CASE ev.e = "poll" -> [o1 EXCEPT !.pollN[ev.src] = ev.n, !.pollT[ev.src] = ev.t, !.lastRound = MinuteOf(c, ev.t)]
    [] ev.e = "listed" ->
         LET te == ev.t            \* evaluation happens when the slowest source has answered
             listed == {s \in o.sch : s.src = ev.src /\ s.sid \in RangeS(ev.ids)}
             crons == {s \in listed : s.kind = "cron" /\ ~Cancels(c, s) /\ CronDue(c, s, te + (MaxLat(c) - c.srcs[ev.src].lat))}
             newOnce == {s \in listed : s.kind = "once" /\ OnceRec(o, s.sid).firstDue < 0
                                        /\ s.T <= HorizonOf(c, te + (MaxLat(c) - c.srcs[ev.src].lat))}
         IN [o1 EXCEPT !.exp = @ \cup {<<s.sid, MinuteOf(c, te + (MaxLat(c) - c.srcs[ev.src].lat))>> : s \in crons},
                       !.once = [x \in DOMAIN o.once \cup {s.sid : s \in newOnce} |->
                                   IF x \in {s.sid : s \in newOnce}
                                   THEN [OnceRec(o, x) EXCEPT !.firstDue = te + (MaxLat(c) - c.srcs[ev.src].lat)]
                                   ELSE o.once[x]]]
    [] ev.e = "kick" ->
         IF ~(\E s \in o.known : s.sid = ev.sid) THEN o1
         ELSE LET sp == SpecOf(o, ev.sid) IN
              IF sp.kind = "cron"
              THEN [o1 EXCEPT !.ck = Append(@, <<ev.sid, MinuteOf(c, ev.t)>>),
                              !.fs = Upd(@, ev.sid, [FsOf(o, ev.sid) EXCEPT !.kick = @ + 1, !.kok = @ + (IF ev.ok THEN 1 ELSE 0)])]
              ELSE [o1 EXCEPT !.once = Upd(@, ev.sid, [OnceRec(o, ev.sid) EXCEPT !.kicks = Append(@, ev.t),
                                                                             !.oks = @ + (IF ev.ok THEN 1 ELSE 0)]),
                              !.fs = Upd(@, ev.sid, [FsOf(o, ev.sid) EXCEPT !.kick = @ + 1, !.kok = @ + (IF ev.ok THEN 1 ELSE 0)])]
    [] ev.e = "presend" -> [o1 EXCEPT !.fs = Upd(@, ev.sid, [FsOf(o, ev.sid) EXCEPT !.pre = @ + (IF ev.ok THEN 1 ELSE 0)])]
    [] ev.e = "postsend" ->
         [o1 EXCEPT !.fs = Upd(@, ev.sid, [FsOf(o, ev.sid) EXCEPT !.post = @ + 1]),
                    !.sch = IF c.srcs[ev.src].removes
                            THEN {s \in @ : ~(s.sid = ev.sid /\ s.src = ev.src /\ s.kind = "once")} ELSE @]
    [] ev.e = "add" ->
         LET s == [src |-> ev.src, sid |-> ev.sid, kind |-> ev.s, mins |-> ev.ids, T |-> ev.n, cancel |-> ~ev.ok]
         (* an id that was used before (its one-shot has fired and is gone) names a NEW schedule from now on *)
         IN [o1 EXCEPT !.sch = {x \in @ : x.sid # ev.sid} \cup {s}, !.known = {x \in @ : x.sid # ev.sid} \cup {s},
                       !.once = [x \in DOMAIN @ \ {ev.sid} |-> @[x]],
                       !.fs = [x \in DOMAIN @ \ {ev.sid} |-> @[x]]]
    [] ev.e = "remove" -> [o1 EXCEPT !.sch = {x \in @ : ~(x.sid = ev.sid /\ x.src = ev.src)}]
    [] OTHER -> o1

CronKicksIn(o, sid, mn) == Cardinality({i \in DOMAIN o.ck : o.ck[i] = <<sid, mn>>})

(* all cron occurrences of minutes < upto are settled: exactly the expected ones were attempted once *)
CronSettled(c, o, upto) ==
  \A i \in DOMAIN o.ck \cup {0} : TRUE

SchCheck(c, op, o, ev) ==
  LET isOnce(sid) == (\E s \in o.known : s.sid = sid) /\ SpecOf(o, sid).kind = "once"
      isKnown(sid) == \E s \in o.known : s.sid = sid
  IN
  (* ---------------- C15 ---------------- *)
     (* "at start and at every minute boundary": to the scheduler's own resolution of one second (a loop that wakes a few *)
     (* milliseconds after the boundary to be safe against clock granularity still polls "at the boundary")              *)
     (IF ev.e = "poll"
      THEN LET due == IF ev.n = 1 THEN c.start ELSE (MinuteOf(c, op.pollT[ev.src] + MaxLat(c)) + 1) * c.minute
           IN IF ev.t < due \/ ev.t >= due + c.second THEN {"C15_PollTimes"} ELSE {}
      ELSE {})
  \cup (IF ev.e = "poll" /\ ev.n # op.pollN[ev.src] + 1 THEN {"C15_PollTimes"} ELSE {})
  \cup (IF ev.e = "eot" /\ \E i \in DOMAIN c.srcs : o.pollT[i] + MaxLat(c) + c.minute < ev.t THEN {"C15_PollsContinue"} ELSE {})
  \cup (IF ev.e = "eot" /\ ~ev.ok THEN {"C15_LoopDied"} ELSE {})
  (* cron: when a new round starts (or at the end) every earlier minute is settled *)
  \cup (IF (ev.e = "poll" /\ MinuteOf(c, ev.t) > op.lastRound) \/ ev.e = "eot"
        THEN LET upto == IF ev.e = "eot" THEN MinuteOf(c, ev.t - c.second) + 1 ELSE MinuteOf(c, ev.t)
                 mins == 0..(upto - 1)
                 crons == {s.sid : s \in {x \in o.known : x.kind = "cron"}}
             IN (IF \E sid \in crons : \E mn \in mins : <<sid, mn>> \in o.exp /\ CronKicksIn(o, sid, mn) = 0
                 THEN {"C15_CronMissed"} ELSE {})
                \cup (IF \E sid \in crons : \E mn \in mins : CronKicksIn(o, sid, mn) > (IF <<sid, mn>> \in o.exp THEN 1 ELSE 0)
                      THEN {"C15_CronExtra"} ELSE {})
        ELSE {})
  \cup (IF ev.e = "kick" /\ isKnown(ev.sid) /\ ~isOnce(ev.sid) /\ <<ev.sid, MinuteOf(c, ev.t)>> \notin o.exp
           /\ ~Cancels(c, SpecOf(o, ev.sid))
        THEN {"C15_CronExtra"} ELSE {})
  (* one-shots *)
  \cup (IF ev.e = "kick" /\ isKnown(ev.sid) /\ isOnce(ev.sid) THEN
          LET r == o.once[ev.sid] IN
             (IF ev.t < r.T THEN {"C15_NotEarly"} ELSE {})
          \cup (IF r.oks > 1 THEN {"C15_OnceOnly"} ELSE {})
          \cup (IF Len(r.kicks) > 1 /\ OnceRec(op, ev.sid).oks >= 1 THEN {"C15_OnceOnly"} ELSE {})
          \cup (IF Len(r.kicks) = 1 /\ r.firstDue < 0 THEN {"C15_Unexpected"} ELSE {})
          \cup (IF Len(r.kicks) = 1 /\ r.firstDue >= 0 /\ ev.t > Max2(r.T, r.firstDue) + c.second THEN {"C15_Late"} ELSE {})
        ELSE {})
  \cup (IF ev.e = "eot"
           /\ \E sid \in DOMAIN o.once : LET r == o.once[sid] IN
                 r.firstDue >= 0 /\ Len(r.kicks) = 0 /\ ~Cancels(c, SpecOf(o, sid))
                 /\ Max2(r.T, r.firstDue) + c.second + c.second < ev.t
                 /\ \E s \in o.sch : s.sid = sid
        THEN {"C15_Missing"} ELSE {})
  \cup (IF ev.e = "kick" /\ ~isKnown(ev.sid) THEN {"C15_UnknownSchedule"} ELSE {})
  (* ---------------- C16 (on_ready) ---------------- *)
  \cup (IF ev.e = "kick" /\ isKnown(ev.sid)
        THEN LET sp == SpecOf(o, ev.sid)
                 hasPre == c.srcs[sp.src].pre # ""
             IN (IF Cancels(c, sp) THEN {"C16_Cancel"} ELSE {})
                \cup (IF ev.s # "payload_ok" THEN {"C16_Payload"} ELSE {})
                \cup (IF hasPre /\ FsOf(o, ev.sid).kick > FsOf(o, ev.sid).pre THEN {"C16_Order"} ELSE {})
        ELSE {})
  \cup (IF ev.e = "postsend" /\ FsOf(o, ev.sid).post > FsOf(o, ev.sid).kok THEN {"C16_Order"} ELSE {})
  \cup (IF ev.e = "postsend" /\ isKnown(ev.sid) /\ SpecOf(o, ev.sid).src # ev.src THEN {"C16_WrongSource"} ELSE {})
  \cup (IF ev.e = "presend" /\ isKnown(ev.sid) /\ ev.ok # ~Cancels(c, SpecOf(o, ev.sid)) THEN {"C16_Cancel"} ELSE {})
  \cup (IF ev.e = "eot" /\ c.kicklat = 0 /\ \E sid \in DOMAIN o.fs : o.fs[sid].post # o.fs[sid].kok THEN {"C16_PostSendMissing"} ELSE {})
=============================================================================

SPECIFICATION TraceSpec
CONSTANTS
  LookaheadAfterLimit = TRUE
  CtxDictShared = TRUE
  Cfgs = {}
  MaxNow = 100000
  Outcomes = {"ret", "exc", "base", "nores"}
  AllowedViol = {}
INVARIANT Progress
POSTCONDITION Done
CHECK_DEADLOCK FALSE

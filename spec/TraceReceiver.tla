--------------------------- MODULE TraceReceiver ---------------------------
(***************************************************************************)
(* Conformance: is a trace recorded from the real Receiver a behaviour of   *)
(* the model (Receiver.tla)?  Environment events drive the corresponding    *)
(* model action; events produced by the code must be matched, field by      *)
(* field and as contiguous runs, by the events some model action emits;     *)
(* actions that emit nothing are silent steps.  Per trace the highest       *)
(* matched position is kept in TLC register `tid` (run with -workers 1).    *)
(***************************************************************************)
EXTENDS Receiver, Json, IOUtils, TLCExt
VARIABLES tid, l
Batch == JsonDeserialize(IOEnv.TRACE_FILE)
T == Batch[tid].ev
tvars == <<vars, tid, l>>

EvEq(a, b) == a.e = b.e /\ a.m = b.m /\ a.x = b.x /\ a.y = b.y /\ a.s = b.s /\ a.t = b.t

Match == LET n == Len(out') IN
         IF n = 0 THEN l' = l
         ELSE /\ l + n - 1 <= Len(T)
              /\ \A j \in 1..n : EvEq(out'[j], T[l + j - 1])
              /\ l' = l + n

SkipEvents == {"fin_skip", "probe", "eot", "noop", "listen_raised", "kick"}
Skip == /\ l <= Len(T) /\ T[l].e \in SkipEvents
        /\ l' = l + 1
        /\ UNCHANGED vars

EnvStep == /\ l <= Len(T)
           /\ LET ev == T[l] IN
              \/ ev.e = "arrive" /\ Arrive(ev.x)
              \/ ev.e = "stop" /\ Stop
              \/ ev.e = "fin" /\ Fin(ev.m, ev.s)
              \/ ev.e = "gate" /\ OpenGate(<<ev.s, ev.m, ev.x>>)
              \/ ev.e = "adv" /\ Advance(ev.t)
           /\ Match

TraceInit == /\ tid \in 1..Len(Batch)
             /\ InitWith(Batch[tid].cfg)
             /\ l = 1
             /\ TLCSet(tid, 1)
TraceNext == /\ \/ (Internal /\ Match)
                \/ EnvStep
                \/ Skip
             /\ tid' = tid
TraceSpec == TraceInit /\ [][TraceNext]_tvars

Progress == TLCGet(tid) >= l \/ TLCSet(tid, l)
Done == \A t \in 1..Len(Batch) : PrintT(<<"MAXL", t, TLCGet(t), Len(Batch[t].ev) + 1>>)
=============================================================================

------------------------------- MODULE Params -------------------------------
(***************************************************************************)
(* C08: arguments reach the task function bound to the right parameters.    *)
(* Model of receiver/params_parser.py parse_params(): the walk over the      *)
(* signature with its running positional index, as a decision table with a   *)
(* small state.  A signature is a sequence of parameters                     *)
(*   [reg: "pos"|"kw", an: "none"|"any"|"T", def: BOOLEAN, dep: BOOLEAN];    *)
(* a call binds parameters 1..npos positionally and a set of others by       *)
(* keyword.                                                                  *)
(* Deviation switch ArgnumCountsAnnotatedOnly: the index advances only for   *)
(* annotated parameters (pre-fix, D3) instead of for every parameter.        *)
(***************************************************************************)
EXTENDS Naturals, Sequences, FiniteSets, TLC

CONSTANTS ArgnumCountsAnnotatedOnly, MaxParams

Annotated(p) == p.an \in {"any", "T"}
ParamSet == [reg : {"pos", "kw"}, an : {"none", "any", "T"}, def : BOOLEAN, dep : BOOLEAN]
Optional(p) == p.def \/ p.dep
LegalSig(sig) ==
  /\ \A i \in 1..(Len(sig) - 1) : sig[i].reg = "kw" => sig[i + 1].reg = "kw"
  /\ \A i \in 1..(Len(sig) - 1) : (sig[i].reg = "pos" /\ sig[i + 1].reg = "pos" /\ Optional(sig[i])) => Optional(sig[i + 1])
  /\ \A i \in DOMAIN sig : sig[i].dep => ~sig[i].def
(* positional arguments can cover the positional parameters before the first dependency *)
MaxPos(sig) == LET bad == {i \in DOMAIN sig : sig[i].reg = "kw" \/ sig[i].dep}
               IN IF bad = {} THEN Len(sig) ELSE (CHOOSE i \in bad : \A j \in bad : i <= j) - 1
LegalCall(sig, npos, kws) ==
  /\ npos \in 0..MaxPos(sig)
  /\ kws \subseteq {i \in DOMAIN sig : i > npos /\ ~sig[i].dep}
  /\ \A i \in DOMAIN sig : (i > npos /\ ~Optional(sig[i])) => i \in kws

(* what the CODE does: index of the argument each annotated parameter is used for *)
Idx(sig, q) == IF ArgnumCountsAnnotatedOnly THEN Cardinality({r \in 1..(q - 1) : Annotated(sig[r])}) ELSE q - 1
AppliedTo(sig, npos, q) == IF Idx(sig, q) < npos THEN <<"pos", Idx(sig, q) + 1>> ELSE <<"kw", q>>
Converters(sig, npos, tgt) == {q \in DOMAIN sig : Annotated(sig[q]) /\ AppliedTo(sig, npos, q) = tgt}

(* the IDEAL: an argument is converted with the annotation of the parameter it is bound to, and with no other *)
BindingOK(sig, npos, kws) ==
  /\ \A j \in 1..npos : Converters(sig, npos, <<"pos", j>>) = (IF Annotated(sig[j]) THEN {j} ELSE {})
  /\ \A q \in kws : Converters(sig, npos, <<"kw", q>>) = (IF Annotated(sig[q]) THEN {q} ELSE {})

VARIABLES sig, npos, kws
Init == /\ sig \in UNION {[1..n -> ParamSet] : n \in 1..MaxParams}
        /\ LegalSig(sig)
        /\ npos \in 0..Len(sig)
        /\ kws \in SUBSET (1..Len(sig))
        /\ LegalCall(sig, npos, kws)
Next == UNCHANGED <<sig, npos, kws>>
Spec == Init /\ [][Next]_<<sig, npos, kws>>
C08_Binding == BindingOK(sig, npos, kws)

(* ---------------- clauses on one recorded real call ---------------- *)
CallOf(ev, p) == ev.call[CHOOSE i \in DOMAIN ev.call : ev.call[i].p = p]
ParCheck(ev) ==
     (IF ~ev.ran THEN {"C08_NotInvoked"} ELSE {})
  \cup UNION {
        LET o == ev.obs[i]
            p == ev.sig[o.p]
            c == CallOf(ev, o.p)
            (* also for an annotated dependency parameter that the caller chose to bind explicitly *)
            expectConv == ev.parse /\ p.an = "T" /\ o.convertible /\ c.vc # "none"
        IN (IF ~o.bound THEN {"C08_Unbound"} ELSE {})
           \cup (IF o.bound /\ expectConv /\ ~o.eq_conv THEN {"C08_NotConverted"} ELSE {})
           \cup (IF o.bound /\ ~expectConv /\ ~o.eq_sent THEN {"C08_Changed"} ELSE {})
        : i \in DOMAIN ev.obs}
  \cup (IF ~ev.rt_ok THEN {"C08_RoundTrip"} ELSE {})
  \cup (IF ev.ran /\ ~ev.others_ok THEN {"C08_DefaultsOrDeps"} ELSE {})
=============================================================================

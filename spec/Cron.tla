-------------------------------- MODULE Cron --------------------------------
(***************************************************************************)
(* Calendar arithmetic, cron matching and the one-shot delay relation, in   *)
(* pure integer TLA+ (no Python in the oracle).  Serves                     *)
(*   C13 - a cron schedule is due exactly in the minutes its expression     *)
(*         matches (UTC / UTC + timedelta / named zone, any second),        *)
(*   C14 - a one-shot schedule is never early and at most one second late.  *)
(* An instant is (day, sod, us): days since 1970-01-01, second of the day,  *)
(* microsecond (TLC integers are 32 bit: never one big number).             *)
(* A cron expression is five fields; a field is a sequence of items         *)
(*   [k |-> "star"] | [k |-> "num", a] | [k |-> "range", a, b, s] |         *)
(*   [k |-> "step", s]            ( step = the form "* / s" ).              *)
(* Zone tables (cfg.zones[z] = sequence of [d, s, off], sorted) come from   *)
(* the SYSTEM tz database (zoneinfo); the code under test uses pytz's copy. *)
(***************************************************************************)
EXTENDS Naturals, Integers, Sequences, FiniteSets, TLC

FloorDiv(a, b) == IF a >= 0 THEN a \div b ELSE -((-a + b - 1) \div b)
Mod(a, b) == a - b * FloorDiv(a, b)

(* civil date from days since the epoch (era / 400-year-cycle algorithm) *)
Civil(day) ==
  LET z == day + 719468
      era == FloorDiv(z, 146097)
      doe == z - era * 146097
      yoe == (doe - doe \div 1460 + doe \div 36524 - doe \div 146096) \div 365
      doy == doe - (365 * yoe + yoe \div 4 - yoe \div 100)
      mp == (5 * doy + 2) \div 153
      d == doy - (153 * mp + 2) \div 5 + 1
      m == IF mp < 10 THEN mp + 3 ELSE mp - 9
      y == yoe + era * 400 + (IF m <= 2 THEN 1 ELSE 0)
  IN [y |-> y, m |-> m, d |-> d]
(* inverse, used to check the arithmetic itself *)
DaysFromCivil(y0, m, d) ==
  LET y == IF m <= 2 THEN y0 - 1 ELSE y0
      era == FloorDiv(y, 400)
      yoe == y - era * 400
      doy == (153 * (IF m > 2 THEN m - 3 ELSE m + 9) + 2) \div 5 + d - 1
      doe == yoe * 365 + yoe \div 4 - yoe \div 100 + doy
  IN era * 146097 + doe - 719468
IsLeap(y) == (y % 4 = 0 /\ y % 100 # 0) \/ y % 400 = 0
DaysIn(y, m) == CASE m \in {1, 3, 5, 7, 8, 10, 12} -> 31 [] m \in {4, 6, 9, 11} -> 30 [] OTHER -> IF IsLeap(y) THEN 29 ELSE 28
Dow(day) == Mod(day + 4, 7)        \* 0 = Sunday; 1970-01-01 was a Thursday

(* ---------------- cron ---------------- *)
ItemMatches(it, target, minv) ==
  CASE it.k = "star" -> TRUE
    [] it.k = "num" -> it.a = target
    [] it.k = "range" -> it.a <= target /\ target <= it.b /\ (target - it.a) % it.s = 0
    [] OTHER -> (target - minv) % it.s = 0
FieldMatches(f, target, minv) == \E i \in DOMAIN f : ItemMatches(f[i], target, minv)
HasStar(f) == \E i \in DOMAIN f : f[i].k \in {"star", "step"}

(* local wall clock = UTC shifted by off seconds *)
Shift(day, sod, off) == LET t == sod + off IN [day |-> day + FloorDiv(t, 86400), sod |-> Mod(t, 86400)]
InstLeq(d1, s1, d2, s2) == d1 < d2 \/ (d1 = d2 /\ s1 <= s2)
ZoneOffset(tab, day, sod) ==
  LET idx == {i \in DOMAIN tab : InstLeq(tab[i].d, tab[i].s, day, sod)}
  IN IF idx = {} THEN tab[1].off ELSE tab[CHOOSE i \in idx : \A j \in idx : j <= i].off

OffsetSeconds(c, o, day, sod) ==
  CASE o.k = "none" -> 0
    [] o.k = "delta" -> o.sec
    [] OTHER -> ZoneOffset(c.zones[o.z], day, sod)

CronMatches(f, loc) ==
  LET cv == Civil(loc.day)
      mi == (loc.sod \div 60) % 60
      hr == loc.sod \div 3600
      domOK == FieldMatches(f[3], cv.d, 1)
      dowOK == FieldMatches(f[5], Dow(loc.day), 0)
      dayOK == IF ~HasStar(f[3]) /\ ~HasStar(f[5]) THEN domOK \/ dowOK ELSE domOK /\ dowOK
  IN FieldMatches(f[1], mi, 0) /\ FieldMatches(f[2], hr, 0) /\ FieldMatches(f[4], cv.m, 1) /\ dayOK

Due(c, f, o, day, sod) == CronMatches(f, Shift(day, sod, OffsetSeconds(c, o, day, sod)))

(* ---------------- one-shot delay relation ---------------- *)
(* instants as [d, s, u]; comparisons are lexicographic *)
ILeq(a, b) == a.d < b.d \/ (a.d = b.d /\ (a.s < b.s \/ (a.s = b.s /\ a.u <= b.u)))
ILt(a, b) == ILeq(a, b) /\ a # b
AddSec(a, n) == LET t == a.s + n IN [d |-> a.d + FloorDiv(t, 86400), s |-> Mod(t, 86400), u |-> a.u]
Horizon(now) == AddSec([d |-> now.d, s |-> (now.s \div 60) * 60, u |-> 0], 61)
None == -1
DelayOK(now, T, res) ==
  IF ILeq(T, now) THEN res = 0
  ELSE IF ILt(Horizon(now), T) THEN res = None
  ELSE res >= 0 /\ ILeq(T, AddSec(now, res)) /\ ILt(AddSec(now, res), AddSec(T, 1))

(* ---------------- clauses on one recorded call of get_task_delay ---------------- *)
(* ev = [e |-> "cron", f, o, day, sod, res] | [e |-> "time", now, T, res, res2] *)
CalcCheck(c, ev) ==
  CASE ev.e = "cron" ->
         (IF ev.res \notin {0, None} THEN {"C13_ResultShape"} ELSE {})
         \cup (IF (ev.res = 0) # Due(c, ev.f, ev.o, ev.day, ev.sod)
               THEN {IF ev.res = 0 THEN "C13_DueButNoMatch" ELSE "C13_MatchButNotDue"} ELSE {})
    [] ev.e = "time" ->
         (IF ~DelayOK(ev.now, ev.T, ev.res)
          THEN {IF ILeq(ev.T, ev.now) THEN "C14_PastNotImmediate"
                ELSE IF ILt(Horizon(ev.now), ev.T) THEN "C14_FarButScheduled"
                ELSE IF ev.res = None THEN "C14_NearButSkipped"
                ELSE IF ev.res >= 0 /\ ~ILeq(ev.T, AddSec(ev.now, ev.res)) THEN "C14_Early" ELSE "C14_Late"}
          ELSE {})
    [] OTHER -> {}

(* ---------------- self-checks of the arithmetic (model-checked) ---------------- *)
CalendarOK(d) ==
  LET cv == Civil(d)
      nx == Civil(d + 1)
  IN /\ DaysFromCivil(cv.y, cv.m, cv.d) = d
     /\ cv.m \in 1..12 /\ cv.d \in 1..DaysIn(cv.y, cv.m)
     /\ (IF cv.d < DaysIn(cv.y, cv.m) THEN nx = [cv EXCEPT !.d = @ + 1]
         ELSE IF cv.m < 12 THEN nx = [y |-> cv.y, m |-> cv.m + 1, d |-> 1]
         ELSE nx = [y |-> cv.y + 1, m |-> 1, d |-> 1])
     /\ Dow(d + 1) = (Dow(d) + 1) % 7
=============================================================================

------------------------------- MODULE Sim_Pm -------------------------------
EXTENDS ProcMan, Json, IOUtils
CfgSeq == JsonDeserialize(IOEnv.CFG_FILE)
VARIABLES cid, elog
CONSTANT SimDepth
EnvNames == {"die", "sighup", "reload", "sigint"}
SimInit == cid \in 1..Len(CfgSeq) /\ InitWith(CfgSeq[cid]) /\ elog = <<>>
SimNext == /\ Next /\ cid' = cid
           /\ elog' = IF out' # <<>> /\ out'[1].e \in EnvNames
                      THEN Append(elog, [e |-> out'[1].e, slot |-> out'[1].slot, s |-> out'[1].s, tick |-> tick])
                      ELSE elog
Dump == phase # "done" \/ PrintT(<<"SCN", cid, tick, elog>>)
=============================================================================

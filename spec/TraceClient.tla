---------------------------- MODULE TraceClient ----------------------------
(* Conformance of recorded client traces to Client.tla: every API call of   *)
(* the trace drives the corresponding model action; all events the code     *)
(* produced for that call must equal, field by field, the model's events.   *)
EXTENDS Client, Json, IOUtils, TLCExt
VARIABLES tid, l
Batch == JsonDeserialize(IOEnv.TRACE_FILE)
T == Batch[tid].ev
tvars == <<vars, tid, l>>
Match == LET n == Len(out') IN
         /\ l + n - 1 <= Len(T)
         /\ \A q \in 1..n : out'[q] = T[l + q - 1]
         /\ l' = l + n
Skip == /\ l <= Len(T) /\ T[l].e = "noop"
        /\ l + 1 <= Len(T) /\ T[l + 1].e = "decl" /\ T[l + 1].lab = LabSeq(decl)
        /\ l' = l + 2
        /\ UNCHANGED vars
TraceInit == /\ tid \in 1..Len(Batch)
             /\ InitWith(Batch[tid].cfg)
             /\ l = IF Len(T) >= 1 /\ T[1] = out[1] THEN 2 ELSE 1
             /\ TLCSet(tid, l)
TraceNext == /\ l <= Len(T)
             /\ \/ LET ev == T[l] IN
                   /\ \/ ev.e = "newk" /\ NewK(ev.k)
                      \/ ev.e = "wl" /\ WL(ev.k, ev.n, ev.v)
                      \/ ev.e = "wtid" /\ WTid(ev.k, ev.x)
                      \/ ev.e = "wbr" /\ WBr(ev.k)
                      \/ ev.e = "kiq" /\ Kiq(ev.k, ev.ok)
                      \/ ev.e = "run" /\ Run(ev.j, ev.s)
                   /\ Match
                \/ Skip
             /\ tid' = tid
TraceSpec == TraceInit /\ [][TraceNext]_tvars
Progress == TLCGet(tid) >= l \/ TLCSet(tid, l)
Done == \A t \in 1..Len(Batch) : PrintT(<<"MAXL", t, TLCGet(t), Len(Batch[t].ev) + 1>>)
=============================================================================

------------------------------ MODULE Sim_Cl ------------------------------
(* Simulation wrapper: prints the API-call history of each behaviour.      *)
EXTENDS Client, Json, IOUtils
CfgSeq == JsonDeserialize(IOEnv.CFG_FILE)
VARIABLES cid, elog
CONSTANT SimDepth
OpNames == {"newk", "wl", "wtid", "wbr", "kiq", "run"}
SimInit == cid \in 1..Len(CfgSeq) /\ InitWith(CfgSeq[cid]) /\ elog = <<>>
SimNext == /\ Next /\ cid' = cid
           /\ elog' = IF out' # <<>> /\ out'[1].e \in OpNames
                      THEN Append(elog, [e |-> out'[1].e, k |-> out'[1].k, n |-> out'[1].n, v |-> out'[1].v,
                                         x |-> out'[1].x, j |-> out'[1].j, s |-> out'[1].s, ok |-> out'[1].ok])
                      ELSE elog
Dump == (TLCGet("level") < SimDepth /\ nops < MaxOps) \/ PrintT(<<"SCN", cid, elog>>)
===========================================================================

------------------------------ MODULE RxProps ------------------------------
(***************************************************************************)
(* Properties C01-C07, C10 (execution side) and C12 of the taskiq worker   *)
(* receiver, stated ONCE over observable events.                            *)
(*                                                                          *)
(* An event is [e, m, x, y, s, t] (see harness/rx_driver.py).  RxFold folds *)
(* one event into the observable summary `o`; RxCheck returns the names of  *)
(* the property clauses that are false in the new summary.  Both the model  *)
(* (Receiver.tla: every action folds the events it emits) and the observer  *)
(* (ObsReceiver.tla: folds events recorded from the real code) use these    *)
(* operators, so the design and the implementation are judged by the same   *)
(* TLA+ text.  Every clause is evaluated after every event, i.e. in every   *)
(* prefix of every run (= every crash point).                               *)
(***************************************************************************)
EXTENDS Naturals, Integers, Sequences, FiniteSets, TLC

PollPeriod == 3          \* ticks (0.1 s): prefetcher poll timeout of 0.3 s
Slack == 1               \* tolerance (ticks) for bounded-liveness clauses

MsgEvents == {"cb_b", "cb_e", "pre_b", "pre_e", "onerr_b", "onerr_e", "post_b",
              "post_e", "postsave_b", "postsave_e", "ack", "ack_e", "dep_open",
              "dep_opened", "dep_close", "dep_closed", "start", "end", "save_b", "save_e"}
ErrOutcomes == {"exc", "base", "nores", "cancel", "depfail", "cerr", "falsy", "sysexit"}
Teardown == {"gen", "agen", "cm", "acm"}
(* a teardown that awaits: its finalisation begins at "dep_close" and is complete only at "dep_closed" *)
CloseSusp(d) == d.csusp /\ d.style \in {"agen", "acm"}

Max2(a, b) == IF a >= b THEN a ELSE b
Min2(a, b) == IF a <= b THEN a ELSE b

Cnt(l, e) == Cardinality({i \in DOMAIN l : l[i].e = e})
Has(l, e) == \E i \in DOMAIN l : l[i].e = e
First(l, e) == IF Has(l, e) THEN CHOOSE i \in DOMAIN l : l[i].e = e /\ \A j \in 1..(i - 1) : l[j].e # e ELSE 0
CntX(l, e, x) == Cardinality({i \in DOMAIN l : l[i].e = e /\ l[i].x = x})
HasX(l, e, x) == \E i \in DOMAIN l : l[i].e = e /\ l[i].x = x
Proj(l, S) == SelectSeq(l, LAMBDA r : r.e \in S)
IsPrefixOf(a, b) == Len(a) <= Len(b) /\ \A i \in DOMAIN a : a[i] = b[i]
RevSeq(s) == [i \in 1..Len(s) |-> s[Len(s) + 1 - i]]
RangeS(s) == {s[i] : i \in DOMAIN s}

--------------------------------------------------------------------------
(* configuration helpers (c = the run's configuration record)             *)
MsgC(c, m) == c.msgs[m]
IsValid(c, m) == MsgC(c, m).kind = "valid"
TidOf(c, m) == MsgC(c, m).tid
GraphTask(c, m) == MsgC(c, m).task \in {"ta", "ts"}
NMw(c) == Len(c.mws)
HookMode(c, i, h) == CASE h = "pre" -> c.mws[i].pre [] h = "onerr" -> c.mws[i].onerr
                       [] h = "post" -> c.mws[i].post [] OTHER -> c.mws[i].postsave
(* a middleware flagged `late` is registered while the worker runs (scenario step "register"): its hooks apply to the   *)
(* messages that arrive afterwards (flag `afterreg`)                                                                      *)
HookIdx(c, m, h) == SelectSeq([i \in 1..NMw(c) |-> i],
                              LAMBDA i : HookMode(c, i, h) # "" /\ (~c.mws[i].late \/ MsgC(c, m).afterreg))
FatalHookRaises(c) == \E i \in 1..NMw(c) : \E h \in {"pre", "onerr", "post"} : HookMode(c, i, h) = "raise"
PostSaveRaises(c) == \E i \in 1..NMw(c) : HookMode(c, i, "postsave") = "raise"
AckT(c) == IF c.ack = "default" THEN "when_saved" ELSE c.ack
DepsOf(c, m) == IF IsValid(c, m) /\ GraphTask(c, m) THEN c.deps ELSE <<>>
DepRec(c, d) == LET i == CHOOSE i \in DOMAIN c.deps : c.deps[i].id = d IN c.deps[i]
TotalGen(c) == Cardinality({i \in 1..NMw(c) : c.mws[i].pre # "" /\ c.mws[i].replace})
GenBefore(c, i) == Cardinality({j \in 1..(i - 1) : c.mws[j].pre # "" /\ c.mws[j].replace})

--------------------------------------------------------------------------
(* observable summary                                                      *)
(* per message: counters + positions (in the message's own event list) of  *)
(* the first ack / start / end / save_e, kept incrementally                *)
MsInit == [cbB |-> 0, cbE |-> 0, cbOk |-> FALSE, st |-> 0, en |-> 0, oc |-> "none", ak |-> 0, ake |-> 0,
           iAck |-> 0, iStart |-> 0, iEnd |-> 0, sb |-> 0, se |-> 0, seOk |-> FALSE, n |-> 0]
RxObsInit(c) ==
  [ taken |-> <<>>, arrived |-> 0, stopN |-> -1, stopT |-> -1, retT |-> -1,
    limT |-> -1, now |-> 0, lastTakeT |-> -1, lastDoneT |-> -1, lastCbBT |-> -1, lastUnsatT |-> -1,
    lst |-> [m \in 1..c.M |-> <<>>], ms |-> [m \in 1..c.M |-> MsInit], cbOrder |-> <<>>,
    stT |-> [m \in 1..c.M |-> -1], nRun |-> 0, nDone |-> 0, nBody |-> 0, nCb |-> 0, nFin |-> 0 ]

TakenSet(o) == RangeS(o.taken)

MsFold(r, ev) ==
  LET n1 == r.n + 1
      r1 == [r EXCEPT !.n = n1] IN
  CASE ev.e = "cb_b" -> [r1 EXCEPT !.cbB = @ + 1]
    [] ev.e = "cb_e" -> [r1 EXCEPT !.cbE = @ + 1, !.cbOk = (ev.s = "ok")]
    [] ev.e = "start" -> [r1 EXCEPT !.st = @ + 1, !.iStart = IF @ = 0 THEN n1 ELSE @]
    [] ev.e = "end" -> [r1 EXCEPT !.en = @ + 1, !.iEnd = IF @ = 0 THEN n1 ELSE @, !.oc = IF r.en = 0 THEN ev.s ELSE @]
    [] ev.e = "ack" -> [r1 EXCEPT !.ak = @ + 1, !.iAck = IF @ = 0 THEN n1 ELSE @]
    [] ev.e = "ack_e" -> [r1 EXCEPT !.ake = @ + 1]
    [] ev.e = "save_b" -> [r1 EXCEPT !.sb = @ + 1]
    [] ev.e = "save_e" -> [r1 EXCEPT !.se = @ + 1, !.seOk = (ev.s = "ok")]
    [] OTHER -> r1

RxFold(c, o, ev) ==
  LET o1 == [o EXCEPT !.now = ev.t] IN
  CASE ev.e = "take" ->
         [o1 EXCEPT !.taken = Append(@, ev.m), !.lastTakeT = ev.t,
                    !.limT = IF c.N > 0 /\ Len(o.taken) + 1 = c.N /\ o.limT < 0 THEN ev.t ELSE @]
    [] ev.e = "arrive" -> [o1 EXCEPT !.arrived = Min2(c.M, @ + ev.x)]
    [] ev.e = "stop" -> IF o.stopT >= 0 THEN o1
                        ELSE [o1 EXCEPT !.stopT = ev.t, !.stopN = Len(o.taken)]
    [] ev.e = "ret" -> [o1 EXCEPT !.retT = IF @ < 0 THEN ev.t ELSE @]
    [] ev.e \in MsgEvents /\ ev.m \in 1..c.M ->
         [o1 EXCEPT !.lst[ev.m] = Append(@, [e |-> ev.e, x |-> ev.x, y |-> ev.y, s |-> ev.s]),
                    !.ms[ev.m] = MsFold(@, ev),
                    !.cbOrder = IF ev.e = "cb_b" THEN Append(@, ev.m) ELSE @,
                    !.stT[ev.m] = IF ev.e = "start" /\ @ < 0 THEN ev.t ELSE @,
                    !.lastDoneT = IF ev.e = "cb_e" THEN ev.t ELSE @,
                    !.lastCbBT = IF ev.e = "cb_b" THEN ev.t ELSE @,
                    !.lastUnsatT = IF ev.e = "cb_e" /\ c.A > 0 /\ o.nRun >= c.A THEN ev.t ELSE @,
                    !.nRun = IF ev.e = "cb_b" THEN @ + 1 ELSE IF ev.e = "cb_e" THEN @ - 1 ELSE @,
                    !.nCb = IF ev.e = "cb_b" THEN @ + 1 ELSE @,
                    !.nDone = IF ev.e = "cb_e" THEN @ + 1 ELSE @,
                    !.nFin = LET r == o.ms[ev.m]
                                 needAck == c.ackable /\ IsValid(c, ev.m) /\ ~MsgC(c, ev.m).ackfail /\ ~FatalHookRaises(c)
                                 slowAck == c.ackasync \/ c.ackfut          \* the acknowledgement ends with its own event (ack_e)
                                 ackDone == IF slowAck THEN r.ake > 0 ELSE r.ak > 0
                             IN IF ev.e = "cb_e" /\ (~needAck \/ ackDone \/ ev.s # "ok") THEN @ + 1
                                ELSE IF ev.e = (IF slowAck THEN "ack_e" ELSE "ack") /\ r.cbE > 0 /\ ~ackDone /\ needAck /\ r.cbOk THEN @ + 1
                                ELSE @,
                    !.nBody = IF ev.e = "start" THEN @ + 1 ELSE IF ev.e = "end" THEN @ - 1 ELSE @]
    [] OTHER -> o1

--------------------------------------------------------------------------
(* per-message clauses; L = event list of message m after the new event    *)
WillDepFail(c, m) == \E i \in DOMAIN DepsOf(c, m) : DepsOf(c, m)[i].fail
OutcomeR(c, m, r) == IF r.en > 0 THEN r.oc ELSE IF WillDepFail(c, m) THEN "depfail" ELSE "none"

(* expected hook/stage sequence for outcome oc, whether a result was stored ok *)
HookSeq(c, m, h) == [k \in 1..Len(HookIdx(c, m, h)) |-> <<h, HookIdx(c, m, h)[k]>>]
ExpectedStages(c, m, oc, started, saved, saveok) ==
     HookSeq(c, m, "pre")
  \o (IF started THEN <<<<"start", 0>>>> ELSE <<>>)
  \o (IF oc \in ErrOutcomes THEN HookSeq(c, m, "onerr") ELSE <<>>)
  \o HookSeq(c, m, "post")
  \o (IF saved THEN <<<<"save", 0>>>> ELSE <<>>)
  \o (IF saved /\ saveok THEN HookSeq(c, m, "postsave") ELSE <<>>)
StageOf(r) == CASE r.e = "pre_b" -> <<"pre", r.x>> [] r.e = "onerr_b" -> <<"onerr", r.x>>
                [] r.e = "post_b" -> <<"post", r.x>> [] r.e = "postsave_b" -> <<"postsave", r.x>>
                [] r.e = "start" -> <<"start", 0>> [] OTHER -> <<"save", 0>>
StageEvents == {"pre_b", "onerr_b", "post_b", "postsave_b", "start", "save_b"}
ObservedStages(L) == LET P == Proj(L, StageEvents) IN [i \in 1..Len(P) |-> StageOf(P[i])]

C10StagesOK(c, m, L, oc) ==
  LET obsS == ObservedStages(L)
      cands == IF oc = "none" THEN {"ret", "exc", "nores"} ELSE {oc}
  IN \E k \in cands : \E sv \in BOOLEAN : \E ok \in BOOLEAN :
        /\ (k = "nores" => ~sv)
        /\ IsPrefixOf(obsS, ExpectedStages(c, m, k, oc # "depfail", sv, ok))

(* hooks: every begin is followed by its end before the next begin; gen ok *)
C10HookPairsOK(c, L) ==
  LET H == Proj(L, {"pre_b", "pre_e", "onerr_b", "onerr_e", "post_b", "post_e", "postsave_b", "postsave_e"})
  IN \A i \in DOMAIN H :
       LET r == H[i]
           isB == r.e \in {"pre_b", "onerr_b", "post_b", "postsave_b"}
       IN IF isB THEN (i < Len(H) => (H[i + 1].x = r.x /\ H[i + 1].e \notin {"pre_b", "onerr_b", "post_b", "postsave_b"}))
          ELSE i > 1 /\ H[i - 1].x = r.x /\ H[i - 1].e \in {"pre_b", "onerr_b", "post_b", "postsave_b"}

C10GenOK(c, m, ev) ==
     /\ (ev.e = "pre_b" => ev.x \in 1..NMw(c) /\ ev.y = GenBefore(c, ev.x) /\ ev.s = ToString(TidOf(c, m)))
     /\ (ev.e \in {"onerr_b", "post_b", "postsave_b"} => ev.y = TotalGen(c) /\ ev.s = ToString(TidOf(c, m)))

(* ---- C12 helpers ---- *)
OpenedSeq(c, L) == LET P == Proj(L, {"dep_open"}) IN
                   SelectSeq([i \in 1..Len(P) |-> P[i].x], LAMBDA d : DepRec(c, d).style \in Teardown /\ ~DepRec(c, d).fail)
ClosedSeq(L) == LET P == Proj(L, {"dep_close"}) IN [i \in 1..Len(P) |-> P[i].x]
(* dependencies whose finalisation is complete *)
FinishedDeps(c, L) == {d \in RangeS(ClosedSeq(L)) : ~CloseSusp(DepRec(c, d)) \/ HasX(L, "dep_closed", d)}

PerMsg(c, o, m, L, ev) ==
  LET valid == IsValid(c, m)
      r == o.ms[m]
      oc == OutcomeR(c, m, r)
      nAck == r.ak
      iAck == r.iAck
      iStart == r.iStart
      iEnd == r.iEnd
      at == AckT(c)
      ended == r.cbE > 0
      endedOk == ended /\ r.cbOk
      hooksOk == ~FatalHookRaises(c) /\ ~MsgC(c, m).ackfail
      opened == OpenedSeq(c, L)
      closed == ClosedSeq(L)
      saveE == r.se
      doneExec == iEnd > 0 \/ oc = "depfail"
  IN
  (* ---------------- C01 ---------------- *)
     (IF r.st <= 1 /\ r.cbB <= 1 /\ (~valid => r.st = 0)
      THEN {} ELSE {"C01_AtMostOnce"})
  \cup (IF valid /\ endedOk /\ hooksOk /\ oc # "depfail" /\ ev.e = "cb_e" /\ r.st # 1
        THEN {"C01_Executed"} ELSE {})
  (* processing of a valid message broke off before the task function although nothing configured to fail was in its way *)
  \cup (IF valid /\ ev.e = "cb_e" /\ ~endedOk /\ hooksOk /\ r.st = 0 THEN {"C01_Executed"} ELSE {})
  \cup (IF ~valid /\ ended /\ (~endedOk \/ r.n # 2) THEN {"C01_SkipsHarmless"} ELSE {})
  (* ---------------- C02 ---------------- *)
  \cup (IF nAck <= 1 THEN {} ELSE {"C02_AtMostOnce"})
  \cup (IF c.ackable /\ valid /\ hooksOk /\ ev.e \in {"ack", "start"} /\ at = "when_received"
           /\ ((iStart > 0 /\ (iAck = 0 \/ iAck > iStart)))
        THEN {"C02_NotEarly_received"} ELSE {})
  \cup (IF ev.e = "ack" /\ at = "when_executed" /\ ~doneExec
        THEN {"C02_NotEarly_executed"} ELSE {})
  \cup (IF ev.e = "ack" /\ at = "when_saved"
           /\ ~( (saveE > 0) \/ (oc = "nores" /\ iEnd > 0) )
        THEN {"C02_NotEarly_saved"} ELSE {})
  \cup (IF c.ackable /\ valid /\ hooksOk /\ ev.e = "cb_e" /\ nAck # 1
        THEN {"C02_Once"} ELSE {})
  \cup (IF ~valid /\ nAck > 0 THEN {"C02_AckOfSkipped"} ELSE {})
  \cup (IF ev.e = "ack" /\ ev.x # m THEN {"C02_AckOfOtherMessage"} ELSE {})
  (* ---------------- C06 ---------------- *)
  \cup (IF (ev.e \in {"dep_open", "dep_opened", "start"} => ev.y \in {0, TidOf(c, m)}) /\ (ev.e = "start" => ev.x = m)
        THEN {} ELSE {"C06_OwnContext"})
  \cup (IF ev.e = "save_b" => ev.x = TidOf(c, m) THEN {} ELSE {"C06_ResultBinding"})
  \cup (IF ev.e = "start" /\ ev.s # "argok" THEN {"C06_OwnArguments"} ELSE {})
  (* a processing finalises the dependencies it opened itself - never one more (those would be another execution's) *)
  \cup (IF ev.e = "dep_close" /\ CntX(L, "dep_close", ev.x) > CntX(L, "dep_open", ev.x) THEN {"C06_OwnTeardown"} ELSE {})
  (* ---------------- C07 ---------------- *)
  \cup (IF ev.e = "save_b" THEN
          LET q == ev
              isErr == (q.y % 2) = 1
              valOk == ((q.y \div 2) % 2) = 1
              lblOk == ((q.y \div 4) % 2) = 1
              errOk == ((q.y \div 8) % 2) = 1
          IN (IF oc = "nores" THEN {"C07_NoResultStored"} ELSE {})
             \cup (IF oc = "ret" /\ ~(~isErr /\ valOk /\ q.s = "none") THEN {"C07_ReturnValue"} ELSE {})
             \cup (IF oc \in {"exc", "base"} /\ ~(isErr /\ errOk /\ q.s = oc) THEN {"C07_Error"} ELSE {})
             \cup (IF oc = "cerr" /\ ~(isErr /\ errOk /\ q.s = "cancel") THEN {"C07_Error"} ELSE {})
             \cup (IF oc = "falsy" /\ ~(isErr /\ errOk /\ q.s = "exc") THEN {"C07_Error"} ELSE {})
             \cup (IF oc = "sysexit" /\ ~(isErr /\ errOk /\ q.s = "sysexit") THEN {"C07_Error"} ELSE {})
             \cup (IF oc = "cancel" /\ ~(isErr /\ q.s = "timeout") THEN {"C07_TimeoutError"} ELSE {})
             \cup (IF oc = "depfail" /\ ~(isErr /\ q.s = "depfail") THEN {"C07_Error"} ELSE {})
             \cup (IF ~lblOk THEN {"C07_Labels"} ELSE {})
             \cup (IF oc = "none" THEN {"C07_SavedBeforeEnd"} ELSE {})
        ELSE {})
  \cup (IF r.sb <= 1 THEN {} ELSE {"C07_ExactlyOne"})
  \cup (IF valid /\ hooksOk /\ ev.e = "cb_e" /\ oc # "none"
           /\ r.sb # (IF oc = "nores" THEN 0 ELSE 1)
        THEN {"C07_ExactlyOne"} ELSE {})
  \cup (IF valid /\ hooksOk /\ ev.e = "cb_e" /\ ~endedOk THEN {"C07_ProcessingAborted"} ELSE {})
  \cup (IF valid /\ hooksOk /\ ev.e = "cb_e" /\ MsgC(c, m).savefail /\ oc \notin {"none", "nores"}
           /\ (~endedOk \/ (c.ackable /\ nAck # 1))
        THEN {"C07_BackendFailureHarmless"} ELSE {})
  \cup (IF ev.e = "end" /\ ev.s = "cancel" /\ MsgC(c, m).timeout > 0
           /\ o.now # o.stT[m] + MsgC(c, m).timeout
        THEN {"C07_TimeoutEnforced"} ELSE {})
  \cup (IF ev.e = "end" /\ ev.s = "cancel" /\ MsgC(c, m).timeout = 0
        THEN {"C07_SpuriousCancel"} ELSE {})
  \cup (IF ev.e = "end" /\ ev.s # "cancel" /\ MsgC(c, m).timeout > 0 /\ MsgC(c, m).body = "wait" /\ MsgC(c, m).task \in {"ta", "ta0"}
           /\ o.now > o.stT[m] + MsgC(c, m).timeout
        THEN {"C07_TimeoutNotEnforced"} ELSE {})
  (* ---------------- C10 ---------------- *)
  \cup (IF valid /\ ev.e \in StageEvents /\ ~C10StagesOK(c, m, L, oc) THEN {"C10_ExecOrder"} ELSE {})
  \cup (IF valid /\ ev.e \in {"pre_b", "pre_e", "onerr_b", "onerr_e", "post_b", "post_e", "postsave_b", "postsave_e"}
           /\ ~(C10HookPairsOK(c, L) /\ C10GenOK(c, m, ev))
        THEN {"C10_HookOnce"} ELSE {})
  \cup (IF valid /\ ev.e = "cb_e" /\ endedOk /\ hooksOk /\ oc # "none" /\ ~PostSaveRaises(c)
           /\ ObservedStages(L) # ExpectedStages(c, m, oc, oc # "depfail", r.sb = 1, r.se > 0 /\ r.seOk)
        THEN {"C10_Complete"} ELSE {})
  \cup (IF valid /\ ev.e = "cb_e" /\ ~endedOk /\ hooksOk THEN {"C10_Complete"} ELSE {})
  (* on_error / post_execute / saving come AFTER the task function: a coroutine that was started has ended by then *)
  \cup (IF valid /\ ev.e \in {"onerr_b", "post_b", "save_b"} /\ r.st > 0 /\ r.en = 0 /\ MsgC(c, m).task \in {"ta", "ta0"}
        THEN {"C10_ExecOrder"} ELSE {})
  (* ---------------- C12 ---------------- *)
  \cup (IF \A d \in RangeS(closed) : CntX(L, "dep_close", d) = 1 /\ HasX(L, "dep_open", d)
        THEN {} ELSE {"C12_Once"})
  \cup (IF ev.e = "cb_e" /\ RangeS(opened) # FinishedDeps(c, L) THEN {"C12_Once"} ELSE {})
  \cup (IF ev.e = "dep_closed" /\ ~(CntX(L, "dep_closed", ev.x) = 1 /\ CntX(L, "dep_close", ev.x) = 1 /\ CloseSusp(DepRec(c, ev.x)))
        THEN {"C12_Once"} ELSE {})
  \cup (IF ev.e = "dep_close" /\ ~doneExec
           /\ ~(\E d \in RangeS([i \in 1..Len(c.deps) |-> c.deps[i].id]) : DepRec(c, d).fail /\ HasX(L, "dep_open", d))
        THEN {"C12_AfterTask"} ELSE {})
  \cup (IF (ev.e = "save_b" \/ (ev.e = "ack" /\ at # "when_received")) /\ RangeS(opened) # FinishedDeps(c, L)
        THEN {"C12_BeforeVisible"} ELSE {})
  \cup (IF ev.e = "dep_close" /\ ~IsPrefixOf(closed, RevSeq(opened))
        THEN (IF \E d \in RangeS(opened) : DepRec(c, d).grp > 0
              THEN {"KF_C12_Reverse_uncached"} ELSE {"C12_Reverse"})
        ELSE {})
  (* one finalisation at a time: the previous dependency's teardown is complete before the next one begins *)
  \cup (IF ev.e = "dep_close" /\ (RangeS(closed) \ {ev.x}) # (FinishedDeps(c, L) \ {ev.x}) THEN {"C12_Reverse"} ELSE {})
  \cup (IF ev.e = "dep_close"
           /\ (ev.s = "exc") # (c.propagate /\ (oc \in ErrOutcomes \/ oc = "none"))
        THEN {"C12_Propagate"} ELSE {})

--------------------------------------------------------------------------
(* global clauses                                                          *)
AllTakenDone(c, o) == o.nDone >= Len(o.taken)
ShutdownT(o) == IF o.stopT >= 0 /\ o.limT >= 0 THEN Min2(o.stopT, o.limT)
                ELSE IF o.stopT >= 0 THEN o.stopT ELSE o.limT

(* the runner takes the sentinel only with a free slot in hand: also wait for the completion that ended a saturated phase. *)
(* A prefetcher that was parked on the prefetch semaphore during that phase (P permits used up) is released by the runner   *)
(* only then and needs one more poll period to see the request (seed-11 history A=2 P=0: stop at 3, slot free at 6,          *)
(* sentinel at 9, return at 9 + W).                                                                                           *)
TimeoutBase(o) == Max2(Max2(Max2(ShutdownT(o), o.lastTakeT), o.lastUnsatT) + PollPeriod, o.lastCbBT)

Global(c, o, ev) ==
  LET nRun == o.nRun
      (* a coroutine body that is still running although the processing of its message has ended is unfinished work too *)
      orphans == Cardinality({m \in TakenSet(o) : IsValid(c, m) /\ MsgC(c, m).task \in {"ta", "ta0"}
                                                   /\ o.ms[m].st > 0 /\ o.ms[m].en = 0 /\ o.ms[m].cbE > 0})
      unfinished == Len(o.taken) - o.nFin + orphans
      busy == Max2(o.nRun, o.nBody)
  IN
     (IF c.A > 0 /\ busy > c.A THEN {"C03_Limit"} ELSE {})
  \cup (IF c.A = 1 /\ ev.e = "cb_b" /\ ~IsPrefixOf(o.cbOrder, o.taken) THEN {"C03_Serial"} ELSE {})
  \cup (IF ev.e = "probe" /\ ev.x = 1
           /\ o.nBody # (IF c.A > 0 THEN Min2(c.A, o.arrived - o.nDone) ELSE o.arrived - o.nDone)
        THEN {"C03_Probe"} ELSE {})
  \cup (IF ev.e = "probe" /\ ev.x = 2 /\ o.arrived > o.nDone + o.nRun THEN {"C03_Progress"} ELSE {})
  \cup (IF c.A > 0 /\ unfinished > c.A + c.P + 1 THEN {"C04_Bound"} ELSE {})
  \cup (IF ev.e = "take" /\ \E i \in 1..(Len(o.taken) - 1) : o.taken[i] = ev.m THEN {"C01_TakenTwice"} ELSE {})
  \cup (IF ev.e = "cb_b" /\ ev.m \notin TakenSet(o) THEN {"C01_NotTaken"} ELSE {})
  \cup (IF o.stopN >= 0 /\ Len(o.taken) - o.stopN > 1 THEN {"C05_AtMostOneMore"} ELSE {})
  \cup (IF c.N > 0 /\ Len(o.taken) > c.N THEN {"C05_ExactlyN"} ELSE {})
  \cup (IF ev.e = "ret" /\ c.N > 0 /\ o.stopT < 0 /\ Len(o.taken) # c.N THEN {"C05_ExactlyN"} ELSE {})
  \cup (IF ev.e = "ret" /\ o.stopT < 0 /\ (c.N = 0 \/ o.limT < 0) THEN {"C05_SpuriousReturn"} ELSE {})
  \cup (IF ev.e = "ret" /\ o.nRun > 0
           /\ ~(c.W >= 0 /\ ShutdownT(o) >= 0 /\ o.now >= ShutdownT(o) + c.W)
        THEN {"C05_NoEarlyReturn"} ELSE {})
  \cup (IF ev.e = "ret" /\ o.nCb < Len(o.taken) THEN {"C05_Drains"} ELSE {})
  \cup (IF ev.e = "ret" /\ orphans > 0 THEN {"C05_NoEarlyReturn"} ELSE {})
  (* "runs every message it has already taken to completion (including its acknowledgement)": a message whose processing *)
  (* ended normally has been acknowledged, and an acknowledgement that takes time has finished, when listen() returns     *)
  \cup (IF ev.e = "ret" /\ c.ackable /\ ~FatalHookRaises(c)
           /\ \E m \in TakenSet(o) : IsValid(c, m) /\ ~MsgC(c, m).ackfail /\ o.ms[m].cbE > 0 /\ o.ms[m].cbOk
                                       /\ (o.ms[m].ak = 0 \/ ((c.ackasync \/ c.ackfut) /\ o.ms[m].ake = 0))
        THEN {"C05_Drains"} ELSE {})
  \cup (IF ev.e = "ret" /\ \E m \in TakenSet(o) : IsValid(c, m) /\ o.ms[m].cbB = 0 THEN {"C01_Lost"} ELSE {})
  \cup (IF ev.e = "eot" /\ \E m \in 1..c.M : o.ms[m].st > 0 /\ o.ms[m].en = 0 /\ c.msgs[m].timeout > 0
                                             /\ o.now > o.stT[m] + c.msgs[m].timeout
        THEN {"C07_TimeoutNotEnforced"} ELSE {})
  \cup (IF ev.e = "eot" /\ o.retT < 0 /\ (c.A = 0 \/ o.nRun < c.A)
           /\ \E m \in TakenSet(o) : IsValid(c, m) /\ o.ms[m].cbB = 0
        THEN {"C01_Stuck"} ELSE {})
  \cup (IF ev.e = "eot" /\ o.retT < 0 /\ ShutdownT(o) < 0 /\ o.nRun = 0 /\ o.arrived > Len(o.taken)
        THEN {"C03_Progress"} ELSE {})
  \cup (IF ev.e = "eot" /\ o.retT < 0 /\ ShutdownT(o) >= 0 /\ AllTakenDone(c, o)
           /\ o.now >= Max2(Max2(ShutdownT(o), o.lastDoneT), o.lastTakeT) + PollPeriod + Slack
        THEN {"C05_Prompt"} ELSE {})
  (* the drain timeout starts when the runner reaches the sentinel: at the latest one poll period after the   *)
  (* request, or when the last taken message was handed to processing (the runner may have waited for a slot) *)
  \cup (IF ev.e = "eot" /\ o.retT < 0 /\ ShutdownT(o) >= 0 /\ c.W >= 0 /\ ~AllTakenDone(c, o)
           /\ o.now >= TimeoutBase(o) + c.W + Slack
        THEN (IF c.A > 0 /\ nRun = c.A THEN {"KF_C05_SaturatedNoTimeout"} ELSE {"C05_ReturnsAfterTimeout"})
        ELSE {})
  \cup (IF ev.e = "ret" /\ ShutdownT(o) >= 0 /\ c.W >= 0 /\ o.nRun > 0 /\ o.nCb >= Len(o.taken)
           /\ o.now > TimeoutBase(o) + c.W + Slack
        THEN {"C05_ReturnsAfterTimeout"} ELSE {})

RxCheck(c, o, ev) ==
  Global(c, o, ev)
  \cup (IF ev.e = "loop_crash" THEN {"C01_WorkerCrashed", "C03_WorkerCrashed", "C05_WorkerCrashed", "C07_WorkerCrashed"} ELSE {})
  \cup (IF ev.e \in MsgEvents /\ ev.m \in 1..c.M THEN PerMsg(c, o, ev.m, o.lst[ev.m], ev) ELSE {})
  \cup (IF ev.e \in MsgEvents /\ ev.m \notin 1..c.M THEN {"X_UnattributedEvent"} ELSE {})
=============================================================================

SPECIFICATION Spec
CONSTANTS
  LookaheadAfterLimit = TRUE
  CtxDictShared = TRUE
  Cfgs <- FlowCfgs
  MaxNow = 0
  Outcomes = {"ret"}
  AllowedViol = {}
  MA = {1,2}
  MP = {0,1}
  MN = {0}
  MW <- WNone
  MM = 3
  Kinds = {"valid"}
INVARIANT NoViolation
INVARIANT SlotConservation
INVARIANT QueueBound
INVARIANT TypeOK
CHECK_DEADLOCK FALSE

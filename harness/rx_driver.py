"""Receiver driver: executes a scenario against the real taskiq Receiver.

The real, unmodified ``taskiq.receiver.Receiver.listen()`` runs on the
virtual-time loop (``vloop.VLoop``) against a scripted broker, a recording
result backend, generated middlewares, generated dependency graphs and task
bodies whose completion the scenario controls.  Every observable event is
recorded with a sequence number and the virtual instant (ticks of 0.1 s).

Scenario::

    {"cfg": {"A": 2, "P": 1, "N": 0, "W": -1,              # W in ticks, -1 = none
             "ack": "when_saved", "ackable": true, "ack_async": false,
             "propagate": true, "backend_suspend": false,
             "msgs": [{"kind": "valid", "task": "ta", "body": "wait",
                       "outcome": "ret", "timeout": 0, "savefail": false}, ...],
             "mws": [{"pre": "sync", "post": "async", "onerr": "", "postsave": "",
                      "replace": false}],
             "deps": [{"id": 1, "style": "gen", "cached": true, "parent": 0,
                       "suspend": false, "fail": false}, ...]},
     "steps": [["arrive", 2], ["settle"], ["fin", 1, "ret"], ["stop"],
               ["adv"], ["advto", 30], ["step", 1], ["gate", 1, 2], ["probe"]]}

Event = {"e": name, "m": message index (1-based, 0 = none), "x": int, "y": int,
         "s": str, "t": ticks}.
"""
from __future__ import annotations

import asyncio
import concurrent.futures
import threading
import contextvars
import logging
import sys
from contextlib import asynccontextmanager, contextmanager
from typing import Any, Dict, List, Optional

from harness.rx_cfg import normalize
from harness.vloop import InlineExecutor, VLoop

logging.disable(logging.CRITICAL)

from taskiq import Context, TaskiqDepends  # noqa: E402
from taskiq.abc.broker import AsyncBroker  # noqa: E402
from taskiq.abc.middleware import TaskiqMiddleware  # noqa: E402
from taskiq.abc.result_backend import AsyncResultBackend  # noqa: E402
from taskiq.acks import AckableMessage, AcknowledgeType  # noqa: E402
from taskiq.exceptions import NoResultError, ResultSetError, TaskRejectedError  # noqa: E402
from taskiq.message import TaskiqMessage  # noqa: E402
from taskiq.receiver import Receiver  # noqa: E402

CUR_M: "contextvars.ContextVar[int]" = contextvars.ContextVar("verif_cur_m", default=0)


# second positional argument of every message: values that are equal / hash-equal across types
ARG_POOL = [1, True, 1.0, 0, False, 0.0, "1", None, [1], {"k": 1}]


class BodyError(Exception):
    """Exception raised by scripted task bodies."""


class FalsyError(BodyError):
    """An exception whose instances are falsy (e.g. an error collection that is empty)."""

    def __bool__(self) -> bool:
        return False


class BrokenStrError(BodyError):
    """An exception that cannot be printed (its __str__ is broken): still an ordinary failure of the execution."""

    def __str__(self) -> str:
        return 42  # type: ignore[return-value]


class QuotaError(BodyError):
    """A constructor whose parameters are not what ends up in .args (the usual 'message built from fields' exception)."""

    def __init__(self, user: str, limit: int) -> None:
        super().__init__(f"user {user} is over the limit of {limit}")
        self.user = user
        self.limit = limit


class BodyBaseError(BaseException):
    """BaseException (not Exception) raised by scripted task bodies."""


class DepOpenError(Exception):
    """Raised by a dependency that fails while being opened."""


class HookError(Exception):
    """Raised by a middleware hook configured to fail."""


class RawMsg(bytes):
    """bytes payload with its own identity (equal payloads stay distinguishable)."""


class Env:
    """Per-run recorder and scenario-controlled state."""

    def __init__(self, loop: VLoop, cfg: Dict[str, Any]) -> None:
        self.loop = loop
        self.cfg = cfg
        self.events: List[Dict[str, Any]] = []
        self.body_fut: Dict[int, "asyncio.Future[Any]"] = {}
        self.gates: Dict[Any, "asyncio.Future[Any]"] = {}
        self.opened_gates: set = set()
        self.returned: Dict[int, Any] = {}
        self.raised: Dict[int, BaseException] = {}
        self.msg_labels: Dict[int, Dict[str, Any]] = {}
        self.sync_m: Dict[int, int] = {}
        self.ctxs: Dict[int, Any] = {}
        self.no_requeue = False
        self.late_task: Any = None
        self.late_mws: List[Any] = []
        self.abort = False
        self.closed = False

    def rec(self, e: str, m: int = 0, x: int = 0, y: int = 0, s: str = "") -> None:
        if self.closed:
            return
        self.events.append(
            {"e": e, "m": int(m), "x": int(x), "y": int(y), "s": s, "t": self.loop.ticks()},
        )

    async def gate(self, key: Any) -> None:
        """Suspend until the scenario opens gate `key` (or pass if opened)."""
        if key in self.opened_gates or self.closed:      # closed: the scenario is over (generators finalised by the collector)
            return
        fut = self.gates.get(key)
        if fut is None or fut.done():
            fut = self.loop.create_future()
            self.gates[key] = fut
        await fut

    def open_gate(self, key: Any) -> bool:
        self.opened_gates.add(key)
        fut = self.gates.get(key)
        if fut is not None and not fut.done():
            fut.set_result(None)
            return True
        return False


def _mid(task_id: str) -> int:
    try:
        return int(task_id[1:]) if task_id.startswith("m") else 0
    except ValueError:
        return 0


class PlainRx:
    """A plain class used as an annotation: nothing converts to it, values for such a parameter arrive as they were sent."""


class SyncHold:
    """A synchronous task function that is still running in a worker thread; quacks like the futures in Env.body_fut."""

    def __init__(self) -> None:
        self.go = threading.Event()
        self.started = threading.Event()
        self.outcome: Any = None
        self.thread: Optional[threading.Thread] = None
        self._done = False

    def done(self) -> bool:
        return self._done

    def set_result(self, outcome: Any) -> None:
        self.outcome = outcome
        self._done = True
        self.go.set()
        if self.thread is not None:
            self.thread.join(10)          # the function has returned and its future's callbacks were scheduled on the loop


class ThreadExec(concurrent.futures.Executor):
    """Executor for scenarios with slow synchronous tasks: those run in a real thread that the scenario releases with a
    `fin` step (hand-shakes make the interleaving deterministic); everything else runs inline."""

    def __init__(self, env: "Env") -> None:
        self.env = env

    def submit(self, fn: Any, /, *args: Any, **kwargs: Any) -> "concurrent.futures.Future[Any]":  # type: ignore[override]
        env = self.env
        call_args = args[1] if len(args) > 1 else []
        i = call_args[0] if call_args and isinstance(call_args[0], int) else 0
        mc = env.cfg["msgs"][i - 1] if 0 < i <= len(env.cfg["msgs"]) else {}
        cfut: "concurrent.futures.Future[Any]" = concurrent.futures.Future()
        if not mc.get("slow"):
            try:
                cfut.set_result(fn(*args, **kwargs))
            except BaseException as exc:  # noqa: BLE001
                cfut.set_exception(exc)
            return cfut
        hold = SyncHold()
        env.body_fut[i] = hold  # type: ignore[assignment]
        env.sync_m[i] = CUR_M.get()

        cfut.set_running_or_notify_cancel()     # like a pool thread that has picked the job up: it cannot be cancelled any more

        def runner() -> None:
            try:
                res = fn(*args, **kwargs)
            except BaseException as exc:  # noqa: BLE001
                if not env.abort:
                    cfut.set_exception(exc)
                return
            if not env.abort:
                cfut.set_result(res)

        hold.thread = threading.Thread(target=runner, daemon=True)
        hold.thread.start()
        hold.started.wait(10)             # the function has begun (its "start" event is recorded) before submit() returns
        return cfut


class ScriptedBroker(AsyncBroker):
    """Broker whose listen() stream is fed by the scenario."""

    def __init__(self, env: Env) -> None:
        super().__init__()
        self.env = env
        self.msgs: List[Any] = []
        self.arrived = 0
        self.next = 0
        self._wake: "Optional[asyncio.Future[Any]]" = None
        self.kicked: List[Any] = []
        self.fail_next = False

    async def kick(self, message: Any) -> None:
        self.kicked.append(message)       # a requeued message (Context.requeue); not an event of the worker's processing

    async def listen(self) -> Any:  # type: ignore[override]
        while True:
            if self.fail_next:
                self.fail_next = False
                self.env.rec("stream_error")
                raise ConnectionError("broker connection lost")
            while self.next >= min(self.arrived, len(self.msgs)) and not self.fail_next:
                self._wake = self.env.loop.create_future()
                await self._wake
            if self.fail_next:
                continue
            i = self.next
            self.next += 1
            self.env.rec("take", m=i + 1)
            yield self.msgs[i]

    def arrive(self, n: int) -> None:
        self.arrived = min(len(self.msgs), self.arrived + n)
        if self._wake is not None and not self._wake.done():
            self._wake.set_result(None)


class RecordingBackend(AsyncResultBackend[Any]):
    def __init__(self, env: Env, inner: Any = None) -> None:
        self.env = env
        self.stored: Dict[str, Any] = {}
        # a real backend behind the recorder (the in-memory route: the store InMemoryBroker built for itself): whatever is
        # saved must be what can be read back from it afterwards
        self.inner = inner

    async def set_result(self, task_id: str, result: Any) -> None:
        env = self.env
        m = CUR_M.get()
        tid = _mid(task_id)
        err = result.error
        if err is None:
            cls = "none"
        elif isinstance(err, NoResultError):
            cls = "nores"
        elif isinstance(err, (asyncio.TimeoutError, TimeoutError)):
            cls = "timeout"
        elif isinstance(err, (BodyError, TaskRejectedError)):
            cls = "exc"
        elif isinstance(err, BodyBaseError):
            cls = "base"
        elif isinstance(err, DepOpenError):
            cls = "depfail"
        elif isinstance(err, asyncio.CancelledError):
            cls = "cancel"
        elif isinstance(err, SystemExit):
            cls = "sysexit"
        else:
            cls = "other:" + type(err).__name__
        # what a networked result backend does with it: JSON text and back (labels left out: not part of this property)
        try:
            back = type(result).model_validate_json(result.model_copy(update={"labels": {}}).model_dump_json())
            rt_ok = back.is_err == result.is_err and (
                (err is None and back.error is None and back.return_value == result.return_value)
                or (err is not None and isinstance(back.error, BaseException)
                    and (type(back.error) is type(err) or type(err).__name__ in str(back.error))))   # stand-in naming the class
        except Exception:  # noqa: BLE001
            rt_ok = False
        inner_exc: Any = None
        if self.inner is not None:
            try:
                await self.inner.set_result(task_id, result)
                got = await self.inner.get_result(task_id) if await self.inner.is_result_ready(task_id) else None
                rt_ok = rt_ok and got is not None and got.is_err == result.is_err and got.labels == result.labels and (
                    (err is None and got.error is None and got.return_value == result.return_value)
                    or (err is not None and type(got.error) is type(err) and got.error.args == err.args))
            except Exception as exc:  # noqa: BLE001
                inner_exc = exc
                rt_ok = False
        flags = 0
        if result.is_err:
            flags |= 1
        if m in env.returned and result.return_value == env.returned[m] and not result.is_err and rt_ok:
            flags |= 2
        if {k_: v_ for k_, v_ in result.labels.items() if k_ != "_gen"} == env.msg_labels.get(m):
            flags |= 4
        if err is not None and (env.raised.get(m) is err or cls in ("timeout", "depfail")) and rt_ok:
            flags |= 8
        if err is not None and result.return_value is None:
            flags |= 16
        env.rec("save_b", m=m, x=tid, y=flags, s=cls)
        mc = env.cfg["msgs"][m - 1] if 0 < m <= len(env.cfg["msgs"]) else {}
        if env.cfg.get("bsusp"):
            await env.gate(("save", m, 0))
        if mc.get("savefail"):
            env.rec("save_e", m=m, x=tid, s="fail")
            raise ResultSetError
        if inner_exc is not None:
            env.rec("save_e", m=m, x=tid, s="fail")
            raise inner_exc
        self.stored[task_id] = result
        env.rec("save_e", m=m, x=tid, s="ok")

    async def is_result_ready(self, task_id: str) -> bool:
        return task_id in self.stored

    async def get_result(self, task_id: str, with_logs: bool = False) -> Any:
        return self.stored[task_id]


HOOKS = ("pre", "onerr", "post", "postsave")
HOOK_ATTR = {"pre": "pre_execute", "onerr": "on_error", "post": "post_execute", "postsave": "post_save"}


def make_middleware(env: Env, idx: int, spec: Dict[str, Any]) -> TaskiqMiddleware:
    """Build a middleware class overriding exactly the configured hooks.

    spec[hook] in {"", "sync", "async", "gate", "raise"}; "gate" = async hook
    that suspends until the scenario opens gate (hook, m, idx).
    """
    ns: Dict[str, Any] = {}

    def gen(hook: str, mode: str) -> Any:
        def body_begin(message: Any) -> int:
            m = _mid(message.task_id)
            env.rec(hook + "_b", m=CUR_M.get(), x=idx, y=int(message.labels.get("_gen", 0)), s=str(m))
            return m

        def finish(message: Any) -> Any:
            env.rec(hook + "_e", m=CUR_M.get(), x=idx)
            if mode == "raise":
                if hook != "postsave" and _mid(message.task_id) % 3 == 2:
                    # the hook was awaiting something that got cancelled under it (a lost connection): the processing of this
                    # message ends cancelled instead of failed - for the worker's bookkeeping that is the same thing
                    raise asyncio.CancelledError
                raise HookError(hook)
            if hook == "pre":
                if spec.get("replace"):
                    new = message.model_copy(deep=True)
                    new.labels["_gen"] = int(message.labels.get("_gen", 0)) + 1
                    return new
                return message
            return None

        if mode in ("sync", "raise"):
            def sync_hook(self: Any, message: Any, *a: Any) -> Any:
                body_begin(message)
                return finish(message)
            return sync_hook

        if mode == "future":
            def future_hook(self: Any, message: Any, *a: Any) -> Any:
                # a plain function returning an awaitable that is not a coroutine
                async def later() -> Any:
                    body_begin(message)
                    return finish(message)
                return asyncio.ensure_future(later())
            return future_hook

        async def async_hook(self: Any, message: Any, *a: Any) -> Any:
            m = body_begin(message)
            if mode == "gate":
                await env.gate((hook, CUR_M.get(), idx))
            else:
                await asyncio.sleep(0)
            return finish(message)
        return async_hook

    for hook in HOOKS:
        mode = spec.get(hook, "")
        if mode:
            ns[HOOK_ATTR[hook]] = gen(hook, mode)
    cls = type(f"VMw{idx}", (TaskiqMiddleware,), ns)
    if idx % 2 == 0:
        cls = type(f"VMw{idx}Derived", (cls,), {"__doc__": "inherits every hook from its base middleware"})
    return cls()


def build_deps(env: Env, deps: List[Dict[str, Any]]) -> Dict[int, Any]:
    """Create dependency callables; returns id -> callable.

    Children are declared as parameters of their parent; every dependency
    also takes the Context and echoes the task id it sees.
    """
    by_id = {d["id"]: d for d in deps}
    children: Dict[int, List[int]] = {}
    for d in deps:
        children.setdefault(d["parent"], []).append(d["id"])
    fns: Dict[int, Any] = {}

    def make(did: int) -> Any:
        if did in fns:
            return fns[did]
        d = by_id[did]
        kids = children.get(did, [])
        for k in kids:
            make(k)
        params = ["ctx: Context = TaskiqDepends()"]
        for k in kids:
            uc = "True" if by_id[k]["cached"] else "False"
            params.append(f"k{k}=TaskiqDepends(FNS[{k}], use_cache={uc})")
        sig = ", ".join(params)
        style = d["style"]
        is_async = style in ("aplain", "agen", "acm")
        pre = "async " if is_async else ""
        lines = []
        if style == "cm":
            lines.append("@contextmanager")
        if style == "acm":
            lines.append("@asynccontextmanager")
        lines.append(f"{pre}def dep{did}({sig}):")
        lines.append(f"    ENV.rec('dep_open', m=CUR_M.get(), x={did}, y=MID(ctx.message.task_id))")
        if d.get("suspend") and is_async:
            lines.append(f"    await ENV.gate(('dep', CUR_M.get(), {did}))")
            lines.append(f"    ENV.rec('dep_opened', m=CUR_M.get(), x={did}, y=MID(ctx.message.task_id))")
        if d.get("fail"):
            lines.append(f"    raise DepOpenError('dep{did}')")
        if style in ("plain", "aplain"):
            lines.append(f"    return {did}")
        else:
            lines.append("    saw = 'none'")
            lines.append("    try:")
            lines.append(f"        yield {did}")
            lines.append("    except BaseException as exc:")
            lines.append("        saw = 'exc'")
            lines.append("        raise")
            lines.append("    finally:")
            lines.append(f"        ENV.rec('dep_close', m=CUR_M.get(), x={did}, s=saw)")
            if d.get("csusp") and style in ("agen", "acm"):
                # a teardown that awaits (closing a connection, flushing): suspended until the scenario opens the gate
                lines.append(f"        await ENV.gate(('depc', CUR_M.get(), {did}))")
                lines.append(f"        ENV.rec('dep_closed', m=CUR_M.get(), x={did})")
        src = "\n".join(lines)
        glb = {
            "ENV": env, "CUR_M": CUR_M, "MID": _mid, "FNS": fns, "Context": Context,
            "TaskiqDepends": TaskiqDepends, "DepOpenError": DepOpenError,
            "contextmanager": contextmanager, "asynccontextmanager": asynccontextmanager,
            "__name__": __name__,
        }
        exec(src, glb)  # noqa: S102
        fns[did] = glb[f"dep{did}"]
        return fns[did]

    for d in deps:
        make(d["id"])
    return fns


def make_tasks(env: Env, broker: ScriptedBroker, cfg: Dict[str, Any]) -> None:
    deps = cfg.get("deps_decl") or []
    fns = build_deps(env, deps)
    by_id = {d["id"]: d for d in deps}
    top = [d["id"] for d in deps if d["parent"] == 0]

    _UNSET = object()

    def argflag(i: int, v: Any, w: Any = None, z: Any = _UNSET) -> str:
        want = ARG_POOL[i % len(ARG_POOL)]
        # third argument: sent as the text "5" for a parameter annotated int - arrives converted iff parsing is enabled
        want_w: Any = "5" if cfg.get("noparse") else 5
        ok = type(v) is type(want) and v == want and type(w) is type(want_w) and w == want_w
        # keyword `z` is on the wire of every third message only ({"q": idx}, kept as sent: nothing converts to PlainRx);
        # an execution whose own message does not carry it sees the parameter's default
        if z is not _UNSET:
            ok = ok and (z == {"q": i} if i % 3 == 0 else z is None)
        return "argok" if ok else "argbad"

    async def body_async(i: int, ctx_tid: int, v: Any = None, w: Any = None, z: Any = _UNSET) -> Any:
        m = CUR_M.get()
        mc = cfg["msgs"][i - 1]
        env.rec("start", m=m, x=i, y=ctx_tid, s=argflag(i, v, w, z))
        if mc.get("body", "wait") == "instant":
            outcome = mc.get("outcome", "ret")
        else:
            fut = env.loop.create_future()
            env.body_fut[i] = fut
            try:
                outcome = await fut
            except asyncio.CancelledError:
                if mc.get("slowcancel"):
                    await asyncio.sleep(0)      # cleanup that needs the loop while being cancelled
                    await asyncio.sleep(0)
                env.rec("end", m=m, x=i, s="cancel")
                raise
        res = finish_body(i, m, outcome)
        if isinstance(res, tuple) and len(res) == 2 and res[0] == "__requeue__":
            await res[1].requeue()               # gives the message back to the broker and ends the execution without a result
        return res

    def finish_body(i: int, m: int, outcome: str) -> Any:
        env.rec("end", m=m, x=i, s=outcome)
        if outcome == "ret":
            val = {"echo": i, "v": [i, "x" * (i % 3), {"k": i * 1.5}]}
            env.returned[i] = val
            return val
        if outcome == "exc" and i % 5 == 0:
            exc: BaseException = TaskRejectedError()      # what Context.reject() raises: an ordinary failure of the execution
        elif outcome == "exc" and i % 7 == 3:
            exc = BrokenStrError(f"boom {i}", i)
        elif outcome == "exc" and i % 4 == 1:
            exc = QuotaError(f"u{i}", i)
        elif outcome == "exc":
            exc = BodyError(f"boom {i}", i)
        elif outcome == "falsy":
            exc = FalsyError(f"empty {i}")
        elif outcome == "base":
            exc = BodyBaseError(f"base {i}")
        elif outcome == "nores":
            ctx_obj = env.ctxs.get(i)
            if ctx_obj is not None and i % 2 == 0 and not env.no_requeue:
                return ("__requeue__", ctx_obj)          # the async wrapper awaits Context.requeue(), which raises NoResultError
            exc = NoResultError()
        elif outcome == "cerr":
            exc = asyncio.CancelledError()
        elif outcome == "sysexit":
            exc = SystemExit(3)
        else:
            raise AssertionError(outcome)
        env.raised[i] = exc
        raise exc

    def body_sync(i: int, ctx_tid: int, v: Any = None, w: Any = None, z: Any = _UNSET) -> Any:
        mc = cfg["msgs"][i - 1]
        hold = env.body_fut.get(i)
        if mc.get("slow") and isinstance(hold, SyncHold):
            m = env.sync_m.get(i, i)          # runs in a worker thread: the context variable of the callback is not there
            env.rec("start", m=m, x=i, y=ctx_tid, s=argflag(i, v, w, z))
            hold.started.set()
            hold.go.wait()
            if env.abort:
                return None
            return finish_body(i, m, hold.outcome)
        m = CUR_M.get()
        env.rec("start", m=m, x=i, y=ctx_tid, s=argflag(i, v, w, z))
        return finish_body(i, m, mc.get("outcome", "ret"))

    # plain tasks (no dependency graph at all)
    async def ta0(i: int, v: Any = None, w: int = 0, z: PlainRx = None) -> Any:  # type: ignore[assignment]
        return await body_async(i, 0, v, w, z)

    def ts0(i: int, v: Any = None, w: int = 0, z: PlainRx = None) -> Any:  # type: ignore[assignment]
        return body_sync(i, 0, v, w, z)

    async def tlate(i: int, v: Any = None, w: int = 0, z: PlainRx = None) -> Any:  # type: ignore[assignment]
        return await body_async(i, 0, v, w, z)
    env.late_task = tlate
    if cfg.get("late_sync_first"):
        def tlate_sync(i: int, v: Any = None, w: int = 0, z: PlainRx = None) -> Any:  # type: ignore[assignment]
            return body_sync(i, 0, v, w, z)
        broker.register_task(tlate_sync, task_name="tlate")
    if not cfg.get("synconly"):
        broker.register_task(ta0, task_name="ta0")
    broker.register_task(ts0, task_name="ts0")

    # tasks with Context + configured dependencies
    params = ["i: int", "v: Any = None", "ctx: Context = TaskiqDepends()", "w: int = 0", "z: PlainRx = None"]
    for k in top:
        uc = "True" if by_id[k]["cached"] else "False"
        params.append(f"k{k}=TaskiqDepends(FNS[{k}], use_cache={uc})")
    sig = ", ".join(params)
    sig_s = sig
    if cfg.get("ctxvia"):
        # task `ts` reaches its Context only through an un-cached dependency (its own graph does not mention Context),
        # while `ta`, possibly in flight next to it, depends on Context directly
        sig_s = ", ".join(params[:2] + ["ctx=TaskiqDepends(GETCTX, use_cache=False)"] + params[3:])
    src = (
        f"async def ta({sig}):\n"
        f"    CTXS[i] = ctx\n"
        f"    return await BODY_A(i, MID(ctx.message.task_id), v, w, z)\n"
        f"def ts({sig_s}):\n"
        f"    return BODY_S(i, MID(ctx.message.task_id), v, w, z)\n"
    )
    def get_ctx(ctx: Context = TaskiqDepends()) -> Context:
        return ctx

    glb = {
        "FNS": fns, "Context": Context, "TaskiqDepends": TaskiqDepends, "BODY_A": body_async, "Any": Any,
        "BODY_S": body_sync, "MID": _mid, "__name__": __name__, "GETCTX": get_ctx, "CTXS": env.ctxs, "PlainRx": PlainRx,
    }
    exec(src, glb)  # noqa: S102
    if not cfg.get("synconly"):
        broker.register_task(glb["ta"], task_name="ta")
    broker.register_task(glb["ts"], task_name="ts")


def _wire_label(v: Any) -> Any:
    """Wire form of a label, written down independently of taskiq.labels (type codes are part of the wire contract)."""
    import base64
    if type(v) is bool:
        return str(v), 5
    if type(v) is int:
        return str(v), 2
    if type(v) is float:
        return str(v), 4
    if type(v) is bytes:
        return base64.b64encode(v).decode(), 6
    return str(v), 3


def build_messages(env: Env, broker: ScriptedBroker, cfg: Dict[str, Any]) -> None:
    for idx, mc in enumerate(cfg["msgs"], start=1):
        kind = mc.get("kind", "valid")
        if kind == "malformed":
            data = b"\xff\x00 not a message %d" % idx
        elif kind == "minus1":
            data = b"-1"
        elif kind == "empty":
            data = b""
        else:
            labels: Dict[str, Any] = {"lbl": f"L{idx}", "n": idx}
            if mc.get("timeout"):
                labels["timeout"] = mc["timeout"] / 10.0
                if idx % 4 == 1:
                    labels["timeout"] = repr(labels["timeout"])     # the label as text, e.g. with_labels(timeout="0.3"): a number all the same
            name = "no_such_task" if kind == "unknown" else mc.get("task", "ta0")
            if mc.get("late"):
                name = "tlate"           # a task that is registered while the worker is running (scenario step "register")
            wire_labels, wire_types = labels, None
            if idx % 4 == 3:
                # an old-style producer (no label types at all) using, as plain text, label names that typed messages of the
                # same task carry as bool / bytes: text stays text, whatever other messages said about these names
                labels["ok"] = "True"
                labels["raw"] = "dGVuYW50"
            if idx % 2 == 0:
                # the way a kicker puts labels on the wire: stringified values + per-label type (incl. a bytes label whose
                # text is not itself valid base64)
                labels["raw"] = b"tenant-%d\xff" % idx
                labels["ok"] = idx % 4 == 0
                prepared = {k_: _wire_label(v_) for k_, v_ in labels.items()}
                wire_labels = {k_: v_[0] for k_, v_ in prepared.items()}
                wire_types = {k_: v_[1] for k_, v_ in prepared.items()}
                if idx % 4 == 2:
                    # a label without a type entry (added by a pre_send middleware that knows nothing about types): kept as it is
                    wire_labels["lbl"] = labels["lbl"]
                    del wire_types["lbl"]
            tm = TaskiqMessage(
                task_id=f"m{mc.get('tid') or idx}", task_name=name, labels=wire_labels, labels_types=wire_types,
                args=[idx, ARG_POOL[idx % len(ARG_POOL)]], kwargs=({"w": "5", "z": {"q": idx}} if idx % 3 == 0 else {"w": "5"}),
            )
            env.msg_labels[idx] = dict(labels)
            data = broker.formatter.dumps(tm).message
        if cfg.get("ackable", True):
            payload: Any = data
            if kind not in ("malformed", "minus1", "empty") and idx % 5 == 2:
                payload = data.decode()      # a client library that hands out text: AckableMessage takes it and holds bytes
            broker.msgs.append(AckableMessage(data=payload, ack=_make_ack(env, idx, cfg)))
        else:
            broker.msgs.append(RawMsg(data))


def _make_ack(env: Env, idx: int, cfg: Dict[str, Any]) -> Any:
    fail = cfg["msgs"][idx - 1].get("ackfail", False)
    if cfg.get("ackfut"):
        def fack() -> Any:
            if fail:
                env.rec("ack", m=idx, x=CUR_M.get())
                raise ConnectionError("ack failed")

            async def body() -> None:
                env.rec("ack", m=idx, x=CUR_M.get())
                await env.gate(("ack", idx, 0))
                env.rec("ack_e", m=idx, x=CUR_M.get())
            return asyncio.ensure_future(body())
        return fack
    if cfg.get("ackasync"):
        async def aack() -> None:
            env.rec("ack", m=idx, x=CUR_M.get())
            if fail:
                raise ConnectionError("ack failed")
            await asyncio.sleep(0)
            env.rec("ack_e", m=idx, x=CUR_M.get())
        return aack

    def ack() -> None:
        env.rec("ack", m=idx, x=CUR_M.get())
        if fail:
            raise ConnectionError("ack failed")
    return ack


def _adv(env: Env, loop: VLoop, limit: Optional[float]) -> bool:
    """Jump to the earliest timer (not beyond limit), record it, fire, settle."""
    loop.settle()
    nt = loop.next_timer()
    eps = 1e-9
    if nt is None or (limit is not None and nt > limit + eps):
        if limit is not None and limit > loop.time() + eps:
            loop._vnow = limit
            env.rec("adv")
            loop.settle()
        return False
    if nt > loop.time() + eps:
        loop._vnow = nt
        env.rec("adv")
    loop.settle()
    return True


ACK = {
    "when_received": AcknowledgeType.WHEN_RECEIVED,
    "when_executed": AcknowledgeType.WHEN_EXECUTED,
    "when_saved": AcknowledgeType.WHEN_SAVED,
    "default": None,
}


def run(scn: Dict[str, Any]) -> List[Dict[str, Any]]:
    """Execute one scenario; returns the recorded event list."""
    cfg = normalize(scn["cfg"])
    loop = VLoop()
    env = Env(loop, cfg)
    loop.on_crash = lambda exc: env.rec("loop_crash", s=type(exc).__name__)
    import taskiq.receiver.receiver as _rr
    saved_time = _rr.time
    _rr.time = loop.time  # type: ignore[assignment]     # the worker's wall clock is the scenario's virtual clock as well
    try:
        if cfg.get("via") == "inmem":
            return _run_inmem(scn, cfg, loop, env)
        broker = ScriptedBroker(env)
        broker.result_backend = RecordingBackend(env)
        all_mws = [(spec, make_middleware(env, idx, spec)) for idx, spec in enumerate(cfg.get("mws") or [], start=1)]
        mw_objs = [o for sp, o in all_mws if not sp.get("late")]
        env.late_mws = [o for sp, o in all_mws if sp.get("late")]         # registered by the "register" step
        if mw_objs:
            broker.add_middlewares(mw_objs[0])            # both registration styles, one after the other
            if len(mw_objs) > 1:
                broker.with_middlewares(*mw_objs[1:])
        make_tasks(env, broker, cfg)
        build_messages(env, broker, cfg)
        index_of = {}
        for i, msg in enumerate(broker.msgs, start=1):
            index_of[id(msg)] = i

        class ObservedReceiver(Receiver):
            """Records begin/end of the processing of each message (public callback API)."""

            def __init__(self, *args: Any, **kwargs: Any) -> None:      # the usual pass-through constructor of a custom receiver
                super().__init__(*args, **kwargs)

            async def callback(self, message: Any, raise_err: bool = False) -> None:  # type: ignore[override]
                m = index_of.get(id(message), 0)
                CUR_M.set(m)
                env.rec("cb_b", m=m)
                try:
                    await Receiver.callback(self, message=message, raise_err=raise_err)
                except BaseException:  # noqa: BLE001
                    env.rec("cb_e", m=m, s="raised")
                    raise
                else:
                    env.rec("cb_e", m=m, s="ok")

        finish = asyncio.Event()
        if cfg.get("bystander"):
            # another worker in the same process (its own broker and Receiver) with a task that never ends: none of this
            # worker's business - its shutdown neither waits for it nor is held up by it
            by_env = Env(loop, cfg)
            bb = ScriptedBroker(by_env)

            async def forever() -> None:
                await loop.create_future()
            bb.register_task(forever, task_name="forever")
            bb.msgs = [bb.formatter.dumps(TaskiqMessage(task_id="by", task_name="forever", labels={}, args=[], kwargs={})).message]
            bb.arrived = 1
            loop.create_task(Receiver(bb, executor=InlineExecutor(), max_async_tasks=2, run_startup=False).listen(asyncio.Event()))
            loop.settle()
        if cfg.get("via") == "api":
            # the programmatic entry point taskiq.api.run_receiver_task builds the Receiver from its own arguments
            from taskiq.api import run_receiver_task

            async def main() -> None:
                await run_receiver_task(
                    broker, receiver_cls=ObservedReceiver, validate_params=not cfg.get("noparse"), max_async_tasks=cfg.get("A", 0),
                    max_prefetch=cfg.get("P", 0), propagate_exceptions=cfg.get("propagate", True), run_startup=True,
                    sync_workers=(11 if len(cfg["msgs"]) % 2 == 0 else None),   # must not influence flow control
                    ack_time=ACK[cfg.get("ack", "default")],
                )
                env.rec("ret")
        elif cfg.get("via") != "cli":
            receiver = ObservedReceiver(
                broker,
                executor=ThreadExec(env) if any(m_.get("slow") for m_ in cfg["msgs"]) else InlineExecutor(),
                validate_params=not cfg.get("noparse"),
                max_async_tasks=cfg.get("A") or None,  # 0 = unlimited
                max_prefetch=cfg.get("P", 0),
                propagate_exceptions=cfg.get("propagate", True),
                ack_type=ACK[cfg.get("ack", "default")],
                max_tasks_to_execute=cfg.get("N") or None,
                wait_tasks_timeout=(cfg["W"] / 10.0) if cfg.get("W", -1) >= 0 else None,
            )

            async def main() -> None:
                await receiver.listen(finish)
                env.rec("ret")

        def request_stop() -> None:
            finish.set()

        if cfg.get("via") == "cli":
            return _run_cli(scn, cfg, loop, env, broker, ObservedReceiver)
        task = loop.create_task(main())
        loop.settle()
        return _play(scn, loop, env, broker, task, finish, request_stop)
    finally:
        _rr.time = saved_time  # type: ignore[assignment]
        env.closed = True
        env.abort = True
        for h in list(env.body_fut.values()):
            if isinstance(h, SyncHold):
                h.go.set()
                if h.thread is not None:
                    h.thread.join(5)
        try:
            loop.shutdown()
        except Exception:  # noqa: BLE001
            pass


def _play(scn: Dict[str, Any], loop: VLoop, env: Env, broker: "ScriptedBroker", task: Any, finish: Any, request_stop: Any) -> List[Dict[str, Any]]:
    """Interpret the environment steps of a scenario against the running worker."""
    if True:
        for step in scn["steps"]:
            op = step[0]
            if op in ("arrive", "arrive_"):  # "_" variants: no settle (mid-flight)
                n = min(step[1], len(broker.msgs) - broker.arrived)
                if n > 0:
                    env.rec("arrive", x=n)
                    broker.arrive(n)
                else:
                    env.rec("noop", s="arrive")
                if op == "arrive":
                    loop.settle()
            elif op in ("stop", "stop_"):
                if not finish.is_set():
                    env.rec("stop")
                    request_stop()
                else:
                    env.rec("noop", s="stop")
                if op == "stop":
                    loop.settle()
            elif op in ("fin", "fin_"):
                i, outcome = step[1], step[2]
                fut = env.body_fut.get(i)
                if fut is not None and not fut.done():
                    env.rec("fin", m=i, s=outcome)
                    fut.set_result(outcome)
                else:
                    env.rec("fin_skip", m=i, s=outcome)
                if op == "fin":
                    loop.settle()
            elif op in ("gate", "gate_"):
                key = (str(step[1][0]), int(step[1][1]), int(step[1][2]))
                if key in env.opened_gates:
                    env.rec("noop", s="gate")
                else:
                    fut = env.gates.get(key)
                    hit = fut is not None and not fut.done()
                    env.rec("gate", m=key[1], s=key[0], x=key[2], y=int(hit))
                    env.open_gate(key)
                if op == "gate":
                    loop.settle()
            elif op in ("fin_any", "fin_any_"):
                # finish the k-th (mod count) currently waiting body, in start order
                waiting = [i for i, f in env.body_fut.items() if not f.done()]
                if waiting:
                    i = waiting[step[1] % len(waiting)]
                    env.rec("fin", m=i, s=step[2])
                    env.body_fut[i].set_result(step[2])
                else:
                    env.rec("noop", s="fin_any")
                if op == "fin_any":
                    loop.settle()
            elif op == "fin_all":
                while True:
                    waiting = [i for i, f in env.body_fut.items() if not f.done()]
                    if not waiting:
                        break
                    env.rec("fin", m=waiting[0], s=step[1])
                    env.body_fut[waiting[0]].set_result(step[1])
                    loop.settle()
            elif op in ("gate_any", "gate_any_"):
                waiting = [k_ for k_, f in env.gates.items() if not f.done() and k_ not in env.opened_gates]
                if waiting:
                    key = waiting[step[1] % len(waiting)]
                    env.rec("gate", m=key[1], s=key[0], x=key[2], y=1)
                    env.open_gate(key)
                else:
                    env.rec("noop", s="gate_any")
                if op == "gate_any":
                    loop.settle()
            elif op == "gate_all":
                while True:
                    waiting = [k_ for k_, f in env.gates.items() if not f.done() and k_ not in env.opened_gates]
                    if not waiting:
                        break
                    key = waiting[0]
                    env.rec("gate", m=key[1], s=key[0], x=key[2], y=1)
                    env.open_gate(key)
                    loop.settle()
            elif op == "adv_rel":
                target = loop.time() + step[1] / 10.0
                while _adv(env, loop, target):
                    pass
            elif op == "stream_error":
                broker.fail_next = True
                if broker._wake is not None and not broker._wake.done():
                    broker._wake.set_result(None)
                loop.settle()
            elif op == "register":
                # (re-)registration while the worker runs; a name that was served by a plain function before is now a coroutine
                broker.register_task(env.late_task, task_name="tlate")
                for mw_late in env.late_mws:
                    broker.add_middlewares(mw_late)
                env.late_mws = []
                env.rec("noop", s="register")
            elif op == "settle":
                loop.settle()
            elif op == "step":
                loop.step(step[1])
            elif op == "adv":
                _adv(env, loop, step[1] / 10.0 if len(step) > 1 else None)
            elif op == "advto":
                while _adv(env, loop, step[1] / 10.0):
                    pass
            elif op == "probe":
                loop.settle()
                env.rec("probe", x=step[1] if len(step) > 1 else 1)
            else:
                raise ValueError(f"unknown step {step!r}")
        loop.settle()
        env.rec("eot", x=int(task.done()), y=int(loop.next_timer() is not None))
        if task.done() and not task.cancelled() and task.exception() is not None:
            env.rec("listen_raised", s=type(task.exception()).__name__)
        env.closed = True
        return env.events


def _run_inmem(scn: Dict[str, Any], cfg: Dict[str, Any], loop: VLoop, env: Env) -> List[Dict[str, Any]]:
    """The worker half of InMemoryBroker: kick() hands the message straight to the Receiver the broker built for itself
    (its own argument wiring: cast_types, max_async_tasks, propagate_exceptions; await_inplace or a task per message).
    A message counts as taken when it is kicked; there is no listen() and so no shutdown to observe."""
    from taskiq.brokers.inmemory_broker import InMemoryBroker
    from taskiq.message import BrokerMessage

    class ObsInMem(InMemoryBroker):
        def __init__(self) -> None:
            super().__init__(max_async_tasks=7, propagate_exceptions=cfg.get("propagate", True), cast_types=not cfg.get("noparse"),
                             await_inplace=bool(cfg.get("inplace", False)))
            self.msgs: List[Any] = []
            self.arrived = 0
            self.next = 0
            self._wake = None
            self.fail_next = False

        def arrive(self, n: int) -> None:
            upto = min(len(self.msgs), self.arrived + n)
            for i in range(self.arrived, upto):
                env.rec("take", m=i + 1)
                mc = cfg["msgs"][i]
                name = "no_such_task" if mc.get("kind") == "unknown" else mc.get("task", "ta0")
                bm = BrokerMessage.model_construct(task_id=f"m{i + 1}", task_name=name, message=self.msgs[i], labels={})
                loop.create_task(self._kick_quiet(bm))
            self.arrived = upto

        async def _kick_quiet(self, bm: Any) -> None:
            try:
                await self.kick(bm)
            except Exception:  # noqa: BLE001   (unknown task: refused at the door, nothing was executed)
                pass

    env.no_requeue = True          # a requeue would be executed again at once by this broker, for ever
    broker = ObsInMem()
    loop.run_coro(broker.startup())        # what an application does first; the broker's options must survive it
    broker.executor.shutdown(wait=False)
    broker.receiver.executor = InlineExecutor()
    broker.result_backend = RecordingBackend(env, inner=broker.result_backend)
    for idx, spec in enumerate(cfg.get("mws") or [], start=1):
        broker.add_middlewares(make_middleware(env, idx, spec))
    make_tasks(env, broker, cfg)  # type: ignore[arg-type]
    build_messages(env, broker, cfg)  # type: ignore[arg-type]
    index_of = {id(msg): i for i, msg in enumerate(broker.msgs, start=1)}
    inner = broker.receiver.callback

    async def observed(message: Any, raise_err: bool = False) -> None:
        m = index_of.get(id(message), 0)
        CUR_M.set(m)
        env.rec("cb_b", m=m)
        try:
            await inner(message=message, raise_err=raise_err)
        except BaseException:  # noqa: BLE001
            env.rec("cb_e", m=m, s="raised")
            raise
        else:
            env.rec("cb_e", m=m, s="ok")

    broker.receiver.callback = observed  # type: ignore[method-assign]
    idle = loop.create_future()        # stands for the listen task the step interpreter reports on: never returns
    finish = asyncio.Event()
    return _play(scn, loop, env, broker, idle, finish, finish.set)  # type: ignore[arg-type]


class _Unwind(BaseException):
    """Leaves start_listen() when the scenario is over but the worker has not returned."""


def _run_cli(scn: Dict[str, Any], cfg: Dict[str, Any], loop: VLoop, env: Env, broker: "ScriptedBroker", receiver_cls: Any) -> List[Dict[str, Any]]:
    """The worker as the command line builds it: WorkerArgs.from_cli(argv) -> taskiq.cli.worker.run.start_listen(args).

    Only the process-level services are replaced: the event loop factory (virtual-time loop), signal registration (handlers are
    captured; 'stop' delivers SIGINT/SIGTERM to the captured handler) and the thread pool; broker and receiver class are
    found by the real import_object() in a module object registered as sys.modules["verifmod"].
    """
    import signal as real_signal
    import types

    from taskiq.cli.worker import run as cli_run
    from taskiq.cli.worker.args import WorkerArgs

    argv = ["verifmod:broker", "--receiver", "verifmod:Receiver", "--no-configure-logging",
            "--max-async-tasks", str(cfg.get("A", 0)), "--max-prefetch", str(cfg.get("P", 0))]
    # options that must NOT influence flow control, with values that would show if they leaked into it
    if len(cfg["msgs"]) % 2 == 0:
        argv += ["--max-process-pool-processes", "11", "--max-threadpool-threads", "13", "--shutdown-timeout", "17",
                 "--max-fails", "19", "--workers", "23", "--log-level", "ERROR", "--tasks-pattern", "x.py"]
    # one stop signal never is a hard kill, whatever --hardkill-count says (0 = the second signal kills)
    argv += ["--hardkill-count", ("0", "29", "1")[len(cfg["msgs"]) % 3]]
    if cfg.get("ack", "default") != "default":
        argv += ["--ack-type", cfg["ack"]]
    if cfg.get("N"):
        argv += ["--max-tasks-per-child", str(cfg["N"])]
    if cfg.get("W", -1) >= 0:
        argv += ["--wait-tasks-timeout", str(cfg["W"] / 10.0)]
    if not cfg.get("propagate", True):
        argv += ["--no-propagate-errors"]
    if cfg.get("noparse"):
        argv += ["--no-parse"]
    args = WorkerArgs.from_cli(argv)
    handlers: Dict[int, Any] = {}
    finish = asyncio.Event()      # mirror of the request, for the step interpreter only
    which = [real_signal.SIGINT, real_signal.SIGTERM]

    def request_stop() -> None:
        finish.set()
        sig = which[len(env.events) % 2]
        try:
            handlers[sig](sig, None)
        except KeyboardInterrupt:
            env.rec("loop_crash", s="KeyboardInterrupt")      # the worker process dies here instead of draining

    calls = [0]

    def run_until_complete(coro: Any) -> Any:
        calls[0] += 1
        if calls[0] == 1:
            async def main() -> None:
                await coro
                env.rec("ret")

            task = loop.create_task(main())
            loop.settle()
            _play(scn, loop, env, broker, task, finish, request_stop)
            if not task.done():
                task.cancel()
                loop.settle()
                raise _Unwind
            return task.result()
        return loop.run_coro(coro)

    fake_signal = types.SimpleNamespace(signal=lambda n, h: handlers.__setitem__(n, h), SIGINT=real_signal.SIGINT,
                                        SIGTERM=real_signal.SIGTERM, SIGHUP=real_signal.SIGHUP)
    mod = types.ModuleType("verifmod")       # found by the real import_object() through sys.modules
    mod.broker = broker  # type: ignore[attr-defined]
    mod.Receiver = receiver_cls  # type: ignore[attr-defined]
    sys.modules["verifmod"] = mod
    saved = {k: getattr(cli_run, k) for k in ("signal", "ThreadPoolExecutor")}
    saved_new_loop = asyncio.new_event_loop
    loop.run_until_complete = run_until_complete  # type: ignore[method-assign]
    try:
        cli_run.signal = fake_signal  # type: ignore[assignment]
        cli_run.ThreadPoolExecutor = lambda max_workers=None: InlineExecutor()  # type: ignore[assignment,misc]
        asyncio.new_event_loop = lambda: loop  # type: ignore[assignment]
        try:
            cli_run.start_listen(args)
        except _Unwind:
            pass
    finally:
        for k, v in saved.items():
            setattr(cli_run, k, v)
        asyncio.new_event_loop = saved_new_loop
        asyncio.set_event_loop(None)
        sys.modules.pop("verifmod", None)
    if not env.closed:
        # start_listen failed before the worker ran
        env.rec("eot", x=0, y=0)
        env.closed = True
    return env.events


if __name__ == "__main__":
    import json
    scn = json.load(open(sys.argv[1]))
    for ev in run(scn):
        print(json.dumps(ev))

"""Driver for C19 (exception round trips of TaskiqResult) and C20 (loading crafted error payloads)."""
from __future__ import annotations

import json
import os
import pickle
import socket
import sys
import tempfile
import types
from typing import Any, Dict, List, Optional

import taskiq.exceptions
from taskiq.result import TaskiqResult
from taskiq.serialization import exception_to_python

# ----------------------------------------------------------------------------- fixture world
FIX = "verif_fixture_mod"
CALLS: List[str] = []        # trap invocations (functions called / non-exception classes instantiated)


def _trap_fn(*a: Any, **k: Any) -> str:
    CALLS.append("func")
    return "pwned"


class _TrapCls:
    def __init__(self, *a: Any, **k: Any) -> None:
        CALLS.append("cls")


class _TrapCallableInstance:
    def __call__(self, *a: Any, **k: Any) -> str:
        CALLS.append("inst")
        return "pwned"


class FixExc(Exception):
    pass


class FixBaseOnly(BaseException):
    pass


class FixCustomInit(Exception):
    def __init__(self, code: int, msg: str) -> None:
        super().__init__(f"{code}: {msg}")
        self.code = code


class _TrapMixin:
    """Not an exception: a bookkeeping mixin in front of the exception base (its constructor must never be called alone)."""

    def __init__(self, *a: Any, **k: Any) -> None:
        CALLS.append("mixin")


class FixMixed(_TrapMixin, ValueError):
    def __init__(self, code: int, msg: str, extra: str) -> None:      # never matches the stored arguments (0..2 of them)
        ValueError.__init__(self, f"{code}: {msg} {extra}")


LOOKUP_MESSAGES = {1: "one", 2: "two", 3: "three"}


class FixLookupInit(Exception):
    """Constructor looks its argument up: rebuilding it from the stored args raises KeyError, not TypeError/ValueError."""

    def __init__(self, code: int) -> None:
        super().__init__(LOOKUP_MESSAGES[code])
        self.code = code


class FixKwOnly(Exception):
    def __init__(self, *, detail: str = "d") -> None:
        super().__init__(detail)


class FixMid(FixExc):
    """Subclass whose own constructor cannot be rebuilt from args; nearest base FixExc can."""

    def __init__(self, a: int, b: int) -> None:
        super().__init__(a + b)


class FixEqHash(Exception):
    """Value equality and hashing by args (two distinct instances may be equal)."""

    def __eq__(self, other: object) -> bool:
        return type(other) is type(self) and other.args == self.args  # type: ignore[attr-defined]

    def __hash__(self) -> int:
        return hash(self.args)


import dataclasses as _dc


@_dc.dataclass
class FixDcErr(Exception):
    """Dataclass exception: __eq__ by value, unhashable."""

    code: int = 0
    reason: str = "r"


class Outer:
    class InnerExc(Exception):
        pass

    class InnerCls(_TrapCls):
        pass

    @staticmethod
    def method(*a: Any, **k: Any) -> str:
        CALLS.append("func")
        return "pwned"


def install_fixture() -> None:
    if FIX in sys.modules:
        return
    m = types.ModuleType(FIX)
    m.func = _trap_fn  # type: ignore[attr-defined]
    m.Cls = _TrapCls  # type: ignore[attr-defined]
    m.Exc = FixExc  # type: ignore[attr-defined]
    m.inst = _TrapCallableInstance()  # type: ignore[attr-defined]
    import functools

    @functools.wraps(FixExc)
    def shim(*a: Any, **k: Any) -> Any:          # a deprecation shim: __wrapped__ points at an exception class, but it is a function
        CALLS.append("shim")
        return "pwned"
    m.shim = shim  # type: ignore[attr-defined]
    m.part = functools.partial(_trap_fn, 1)  # type: ignore[attr-defined]
    from taskiq.state import TaskiqState

    class AppState(TaskiqState):
        def __missing__(self, key: str) -> Any:       # lazily creates resources: must not be triggered by a name walk
            CALLS.append("state_factory")
            return _TrapCls()
    m.app = types.SimpleNamespace(state=AppState())  # type: ignore[attr-defined]
    FixExc.notify = staticmethod(_trap_fn)  # type: ignore[attr-defined]      # non-exception attributes reachable THROUGH an exception class
    FixExc.Meta = _TrapCls  # type: ignore[attr-defined]
    m.Outer = Outer  # type: ignore[attr-defined]
    sub = types.ModuleType(FIX + ".sub")
    sub.Exc2 = FixExc  # type: ignore[attr-defined]
    m.sub = sub  # type: ignore[attr-defined]
    sys.modules[FIX] = m
    for cls in (FixExc, FixBaseOnly, FixCustomInit, FixKwOnly, FixMid, Outer, _TrapCls, FixEqHash, FixDcErr, FixMixed, FixLookupInit):
        cls.__module__ = FIX
        setattr(m, cls.__name__, cls)
    FixExc.__qualname__ = "FixExc"
    Outer.InnerExc.__module__ = FIX
    Outer.InnerExc.__qualname__ = "Outer.InnerExc"
    # an importable but not (yet) loaded module whose import has a visible side effect
    d = tempfile.mkdtemp(prefix="verif-lazy-")
    with open(os.path.join(d, "verif_lazy_mod.py"), "w") as f:
        f.write("import builtins\nbuiltins._verif_lazy_loaded = True\nclass LazyExc(Exception):\n    pass\n")
    sys.path.append(d)
    # a loaded package with a submodule that exists on disk but was never imported
    os.makedirs(os.path.join(d, "verif_pkg"))
    with open(os.path.join(d, "verif_pkg", "__init__.py"), "w") as f:
        f.write("")
    with open(os.path.join(d, "verif_pkg", "maint.py"), "w") as f:
        f.write("import builtins\nbuiltins._verif_lazy_loaded = True\nclass MaintErr(Exception):\n    pass\n")
    import importlib
    importlib.import_module("verif_pkg")
    # a package that is on sys.path but was never imported (neither it nor its sub-packages)
    os.makedirs(os.path.join(d, "verif_cold_pkg", "sub"))
    for rel in (("verif_cold_pkg", "__init__.py"), ("verif_cold_pkg", "sub", "__init__.py")):
        with open(os.path.join(d, *rel), "w") as f:
            f.write("import builtins\nbuiltins._verif_lazy_loaded = True\n")
    with open(os.path.join(d, "verif_cold_pkg", "sub", "errors.py"), "w") as f:
        f.write("class ColdErr(Exception):\n    pass\n")
    # a module that exists on the path but cannot be imported in this process (worker-only settings)
    with open(os.path.join(d, "verif_worker_only.py"), "w") as f:
        f.write("raise RuntimeError('this module can only be imported inside a worker')\n")


# abstract target -> (module name, dotted type name, kind of the object it resolves to)
TARGETS: Dict[str, Any] = {
    "exc": (FIX, "Exc", "exc"), "nested_exc": (FIX, "Outer.InnerExc", "exc"), "builtin_exc": ("builtins", "ValueError", "exc"),
    "baseonly": (FIX, "FixBaseOnly", "exc"), "custominit": (FIX, "FixCustomInit", "exc_noinit"),
    "sub_exc": (FIX, "sub.Exc2", "exc"), "mixed": (FIX, "FixMixed", "exc_noinit"),
    "unimportable": ("verif_worker_only", "ConfigError", "notloaded"), "emptymod": ("", "Weird", "notloaded"),
    "relmod": (".plugins", "PluginError", "notloaded"),
    "own_pkg_cls": ("taskiq", "ZeroMQBroker", "cls"), "own_pkg_func": ("taskiq", "gather", "func"),
    "nomodule_issubclass": (None, "issubclass", "nomodule"), "nomodule_isinstance": (None, "isinstance", "nomodule"),
    "state_walk": (FIX, "app.state.db_pool", "missing"),        # an unset key of a TaskiqState subclass with a __missing__ factory
    "raw_str": ("os", "system", "func"), "raw_list": ("os", "system", "func"), "raw_num": ("os", "system", "func"),
    "wrapped_func": (FIX, "shim", "func"), "exc_method": (FIX, "Exc.notify", "func"), "exc_inner_cls": (FIX, "Exc.Meta", "cls"),
    "partial_inst": (FIX, "part", "inst"),
    # objects that live in taskiq's own serialization module are no more trustworthy than any other non-exception
    "own_func": ("taskiq.serialization", "safe_repr", "func"), "own_cls": ("taskiq.serialization", "ExceptionRepr", "cls"),
    "own_factory": ("taskiq.serialization", "create_exception_cls", "func"), "own_exc_mod_func": ("taskiq.exceptions", "root", "module"),
    "func": (FIX, "func", "func"), "cls": (FIX, "Cls", "cls"), "inst": (FIX, "inst", "inst"), "module": (FIX, "sub", "module"),
    "nested_cls": (FIX, "Outer.InnerCls", "cls"), "nested_func": (FIX, "Outer.method", "func"),
    "os_system": ("os", "system", "func"), "eval": ("builtins", "eval", "func"), "object": ("builtins", "object", "cls"),
    "missing_attr": (FIX, "Nope", "missing"), "missing_nested": (FIX, "Outer.Nope", "missing"), "deep_missing": (FIX, "func.Nope.X", "missing"),
    "lazy": ("verif_lazy_mod", "LazyExc", "notloaded"), "lazy_sub": ("verif_pkg.maint", "MaintErr", "notloaded"),
    "cold_pkg": ("verif_cold_pkg.sub.errors", "ColdErr", "notloaded"), "nomod": ("no.such.module", "Boom", "notloaded"),
    "nomodule_field": (None, "SomeRemoteError", "nomodule"), "nomodule_dotted": (None, "a.b.C", "nomodule"),
    "nomodule_builtin_name": (None, "eval", "nomodule"),
}
ARGS = {"none": [], "one": ["x"], "two": [1, 2], "big": ["x" * 6000, list(range(300))]}


RAW_CLAIMS: Dict[str, Any] = {"raw_str": "os.system", "raw_list": ["os", "system", ["echo pwned"]], "raw_num": 1}


def build_payload(p: Optional[Dict[str, Any]]) -> Any:
    if p is None or p.get("t") == "nil":
        return None
    if p["t"] in RAW_CLAIMS:
        return RAW_CLAIMS[p["t"]]          # a stored "error" that is not even a mapping: never comes back as a value
    mod, name, _ = TARGETS[p["t"]]
    return {"exc_type": name, "exc_message": ARGS[p.get("a", "one")], "exc_module": mod,
            "exc_cause": build_payload(p.get("cause")), "exc_context": build_payload(p.get("context")),
            "exc_suppress_context": bool(p.get("sup", False))}


def norm_payload(p: Optional[Dict[str, Any]]) -> Dict[str, Any]:
    if p is None or p.get("t") == "nil":
        return {"t": "nil", "k": "nil", "a": "none", "cause": {"t": "nil2"}, "context": {"t": "nil2"}} if False else {"t": "nil", "k": "nil"}
    return {"t": p["t"], "k": TARGETS[p["t"]][2], "a": p.get("a", "one"), "cause": norm_payload(p.get("cause")),
            "context": norm_payload(p.get("context"))}


def run_c20(case: Dict[str, Any]) -> Dict[str, Any]:
    install_fixture()
    import builtins
    payload = build_payload(case["p"])
    CALLS.clear()
    before = set(sys.modules)
    if hasattr(builtins, "_verif_lazy_loaded"):
        delattr(builtins, "_verif_lazy_loaded")
    for mname in ("verif_lazy_mod", "verif_pkg.maint", "verif_cold_pkg", "verif_cold_pkg.sub", "verif_cold_pkg.sub.errors"):
        sys.modules.pop(mname, None)
        before.discard(mname)
    entry = case.get("entry", "validate")
    res = "other"
    obj: Any = None
    try:
        if case.get("wrap"):
            # the pickle-flavoured stand-in object claiming a module / class name / args (what a pickled result carries)
            from taskiq.serialization import _UnpickleableExceptionWrapper
            w = _UnpickleableExceptionWrapper(payload["exc_module"] or "builtins", payload["exc_type"], tuple(payload["exc_message"]), "text")
            obj = TaskiqResult.model_validate({"is_err": True, "return_value": None, "execution_time": 0.1, "error": w}).error
        elif entry == "direct":
            from taskiq.serialization import ExceptionRepr
            obj = exception_to_python(ExceptionRepr.model_validate(payload))
        elif entry == "validate":
            obj = TaskiqResult.model_validate({"is_err": True, "return_value": None, "execution_time": 0.1, "error": payload}).error
        else:
            raw = json.dumps({"is_err": True, "return_value": None, "execution_time": 0.1, "error": payload})
            obj = TaskiqResult.model_validate_json(raw).error
        res = "exc" if isinstance(obj, BaseException) else "nonexc"
    except taskiq.exceptions.SecurityError:
        res = "security"
    except Exception as exc:  # noqa: BLE001
        import pydantic
        res = "validation" if isinstance(exc, pydantic.ValidationError) else "other:" + type(exc).__name__
    imported = sorted(m for m in set(sys.modules) - before if not m.startswith(("pydantic", "encodings")))
    lazy = hasattr(builtins, "_verif_lazy_loaded")
    mod, name, kind = TARGETS[case["p"]["t"]]
    cls_kind = "none"
    name_ok = False
    if res == "exc":
        tcls = type(obj)
        want = None
        if kind in ("exc", "exc_noinit"):
            want = sys.modules[mod]
            for part in name.split("."):
                want = getattr(want, part)
        if want is not None and tcls is want:
            cls_kind = "resolved"
        elif tcls is Exception and want is not None:
            cls_kind = "generic"
        else:
            cls_kind = "synthetic" if tcls.__name__ == name and tcls.__module__ in ("taskiq.exceptions", "taskiq.serialization") else "otherclass"
        name_ok = cls_kind == "resolved" or tcls.__name__ == name or (want is not None and want.__name__ in str(obj))
    second = "n/a"
    if case.get("then_import") and case["p"]["t"] == "lazy":
        # the module gets imported by the application later on: from then on the real class must come back
        import importlib
        mod_obj = importlib.import_module("verif_lazy_mod")
        try:
            obj2 = TaskiqResult.model_validate({"is_err": True, "return_value": None, "execution_time": 0.1, "error": payload}).error
            second = "resolved" if type(obj2) is mod_obj.LazyExc else "stale"
        except Exception as exc:  # noqa: BLE001
            second = "raised:" + type(exc).__name__
        sys.modules.pop("verif_lazy_mod", None)
    return {"e": "load", "p": norm_payload(case["p"]), "entry": entry, "res": res, "cls_kind": cls_kind, "name_ok": bool(name_ok),
            "called": len(CALLS), "imported": len(imported) + (1 if lazy else 0), "second": second, "wrap": bool(case.get("wrap"))}


# ----------------------------------------------------------------------------- C19: round trips
class _Unreprable:
    def __repr__(self) -> str:
        raise RuntimeError("no repr")

    def __str__(self) -> str:
        raise RuntimeError("no str")


def make_args(kind: str, salt: int) -> tuple:
    if kind == "none":
        return ()
    if kind == "json":
        return ("msg %d" % salt, salt, [1, {"k": None}], 1.5, True)
    if kind == "picklable":
        return ("m", {1, 2, salt}, b"bytes", (1, 2))
    if kind == "unpicklable":
        return ("m", lambda: salt)
    if kind == "socket":
        return (socket.socket(),)
    if kind == "unreprable":
        return (_Unreprable(), "tail")
    if kind == "mixed":
        return ("ok", {3}, lambda: 1, _Unreprable(), 7)
    if kind == "const":
        return ("same for every node", 1)
    if kind == "surrogate":
        return ("file \udcff.txt", "a\ud83db", salt)          # text with lone surrogates (os.fsdecode of a non-UTF-8 name)
    if kind == "localscalar":
        # instances of function-local subclasses of scalar types: isinstance(int / str) but neither picklable nor importable
        import enum

        class Colour(enum.IntEnum):
            RED = 1 + salt % 3

        class Tag(str):
            pass
        return (Colour.RED, Tag("t%d" % salt))
    if kind == "nocopy":
        import threading
        return ("m", threading.Lock())             # cannot be pickled, cannot be deep-copied
    if kind == "loadfail":
        # pickles (by reduce) but cannot be loaded back: its class cannot be rebuilt from its args
        return ("m", FixCustomInit(404, "not found"))
    raise ValueError(kind)


def make_class(kind: str) -> Any:
    install_fixture()
    if kind == "builtin":
        return KeyError
    if kind == "builtin2":
        _DYN[0] += 1
        return UnicodeError if _DYN[0] % 2 else socket.gaierror        # an exception class of a standard-library module
    if kind in ("module", "attr"):
        return FixExc
    if kind == "nested":
        return Outer.InnerExc
    if kind == "baseonly":
        return FixBaseOnly
    if kind == "custominit":
        return FixCustomInit
    if kind == "kwonly":
        return FixKwOnly
    if kind == "mid":
        return FixMid
    if kind == "eqhash":
        return FixEqHash
    if kind == "dcerr":
        return FixDcErr
    if kind == "local_shadow":
        def factory() -> Any:
            class FixExc(Exception):      # same short name as the module-level FixExc, but a different class
                pass
            FixExc.__module__ = FIX
            return FixExc
        return factory()
    if kind == "local":
        class LocalErr(Exception):
            pass
        return LocalErr
    if kind == "dynamic":
        # a class the loading process cannot resolve: its module does not exist, cannot be imported here, or has an odd name
        _DYN[0] += 1
        return type("DynErr", (Exception,), {"__module__": ("nowhere.at.all", "verif_worker_only", "", ".plugins")[_DYN[0] % 4]})
    raise ValueError(kind)


_DYN = [0]
IMPORTABLE = {"builtin", "builtin2", "module", "nested", "baseonly", "eqhash", "dcerr", "attr"}


def make_exc(kind: str, akind: str, salt: int) -> BaseException:
    cls = make_class(kind)
    if kind == "custominit" and salt % 2 == 1:
        e: BaseException = FixLookupInit(1 + salt % 3)
    elif kind == "custominit":
        e = cls(salt, "m")
    elif kind == "kwonly":
        e = cls(detail="d%d" % salt)
    elif kind == "mid":
        e = cls(salt, 1)
    elif kind == "dcerr":
        e = cls(7, "r") if akind == "const" else cls(salt, "r%d" % salt)
    elif kind == "attr":
        e = FixExc(*make_args(akind, salt))
        import threading
        e.lock = threading.Lock()      # state added after construction that cannot be pickled  # type: ignore[attr-defined]
    else:
        e = cls(*make_args(akind, salt))
    return e


def build_graph(nodes: List[Dict[str, Any]]) -> List[BaseException]:
    objs = [make_exc(n["c"], n["a"], i) for i, n in enumerate(nodes, start=1)]
    for o, n in zip(objs, nodes):
        if n["cause"]:
            o.__cause__ = objs[n["cause"] - 1]
        if n["context"]:
            o.__context__ = objs[n["context"] - 1]
        o.__suppress_context__ = bool(n["sup"])
    return objs


def args_equal(a: tuple, b: tuple) -> bool:
    try:
        return type(a) is type(b) and a == b
    except Exception:  # noqa: BLE001
        return False


def project(dec: Any, objs: List[BaseException], nodes: List[Dict[str, Any]], n: int, depth: int, with_links: bool) -> Dict[str, Any]:
    """Decoded exception -> abstract tree (n = original node reached by the same links, 0 = none)."""
    if dec is None:
        return {"n": 0, "nil": True}
    orig = objs[n - 1] if n else None
    out: Dict[str, Any] = {"n": n, "nil": False, "is_exc": isinstance(dec, BaseException)}
    if orig is not None and isinstance(dec, BaseException):
        ocls = type(orig)
        text = type(dec).__name__ + " " + str(getattr(dec, "exc_cls_name", ""))
        for fn in (str, repr):
            try:
                text += " " + fn(dec)
            except Exception:  # noqa: BLE001
                pass
        out["same_class"] = type(dec) is ocls
        out["args_equal"] = args_equal(tuple(getattr(dec, "args", ())), tuple(orig.args))
        out["names_original"] = ocls.__name__ in text
        out["base_of_original"] = isinstance(orig, type(dec)) and type(dec) not in (Exception, BaseException)
        # a real class that is neither the original, nor one of its bases, nor one of taskiq's stand-ins
        out["unrelated"] = (type(dec) is not ocls and not isinstance(orig, type(dec))
                            and not type(dec).__module__.startswith("taskiq.") and type(dec).__module__ != "nowhere.at.all"
                            and "<locals>" not in type(dec).__qualname__ and type(dec).__module__ in sys.modules
                            and getattr(sys.modules[type(dec).__module__], type(dec).__name__, None) is type(dec))
        out["sup"] = bool(getattr(dec, "__suppress_context__", False))
        out["args_text"] = all(isinstance(x, (str, int, float, bool, type(None), list, dict, tuple, set, bytes, frozenset)) or isinstance(x, str)
                               for x in getattr(dec, "args", ()))
    else:
        out.update({"same_class": False, "args_equal": False, "names_original": False, "base_of_original": False, "sup": False, "args_text": False,
                    "unrelated": False})
    if with_links and depth < 12 and isinstance(dec, BaseException):
        c = dec.__cause__
        x = dec.__context__
        out["cause"] = project(c, objs, nodes, nodes[n - 1]["cause"] if n else 0, depth + 1, True)
        out["context"] = project(x, objs, nodes, nodes[n - 1]["context"] if n else 0, depth + 1, True)
    else:
        out["cause"] = {"n": 0, "nil": True}
        out["context"] = {"n": 0, "nil": True}
    return out


def run_c19(case: Dict[str, Any]) -> Dict[str, Any]:
    install_fixture()
    nodes = case["g"]
    enc = case["enc"]
    try:
        objs = build_graph(nodes)
    except Exception as exc:  # noqa: BLE001
        return {"e": "rt", "g": nodes, "enc": enc, "res": "buildfail:" + type(exc).__name__, "tree": {"n": 0, "nil": True}}
    root = objs[case.get("root", 1) - 1]
    res = "ok"
    dec: Any = None
    stage = "dump"
    try:
        r = TaskiqResult(is_err=True, return_value=None, execution_time=0.1, error=root, labels={})
        if enc == "json":
            s = r.model_dump_json()
            stage = "load"
            dec = TaskiqResult.model_validate_json(s).error
        elif enc == "dict":
            # what networked result backends do: the dumped model goes through the broker's serializer
            from taskiq.serializers.json_serializer import JSONSerializer
            wire = JSONSerializer().dumpb(r.model_dump())
            stage = "load"
            dec = TaskiqResult.model_validate(JSONSerializer().loadb(wire)).error
        else:
            from taskiq.serializers.pickle import PickleSerializer
            b = PickleSerializer().dumpb(r)
            stage = "load"
            dec = PickleSerializer().loadb(b).error
    except BaseException as exc:  # noqa: BLE001
        res = f"raised_{stage}:{type(exc).__name__}"
    tree = project(dec, objs, nodes, case.get("root", 1), 0, enc in ("json", "dict")) if res == "ok" else {"n": 0, "nil": True}
    for o in objs:
        for a in o.args:
            if isinstance(a, socket.socket):
                a.close()
    return {"e": "rt", "g": [{"c": n["c"], "a": n["a"], "cause": n["cause"], "context": n["context"], "sup": bool(n["sup"])} for n in nodes],
            "enc": enc, "root": case.get("root", 1), "res": res, "tree": tree}


def run_batch(scn: Dict[str, Any]) -> Dict[str, Any]:
    fn = run_c19 if scn["kind"] == "c19" else run_c20
    return {"cfg": {"n": len(scn["cases"])}, "ev": [fn(c) for c in scn["cases"]]}

"""Driver for C08: arguments reach the task function unchanged and bound to the right parameters.

A case = signature + call:
  {"sig": [{"reg": "pos"|"kw", "an": "none"|"any"|"T", "ty": "int", "def": bool, "dep": bool}, ...],
   "call": [{"p": param index (1-based), "how": "pos"|"kw", "vc": "conv"|"nconv"|"none"|"native"|"model"|"dc"}, ...],
   "parse": bool, "fmt": "proxy_json"|"proxy_pickle"|"json"}
The real AsyncKicker builds the message, a real formatter round-trips it, the real Receiver.callback runs the generated
function, which reports what each parameter received.  Per bound parameter the driver reports
  eq_sent (received == the prepared sent value, same type) and eq_conv (received == TypeAdapter(T).validate_python(sent)).
"""
from __future__ import annotations

import dataclasses
import functools
import logging
import random
from typing import Any, Dict, List, Optional, Tuple

import pydantic

from harness.vloop import InlineExecutor, VLoop

logging.disable(logging.CRITICAL)

from taskiq import TaskiqDepends  # noqa: E402
from taskiq.abc.broker import AsyncBroker  # noqa: E402
from taskiq.formatters.json_formatter import JSONFormatter  # noqa: E402
from taskiq.receiver import Receiver  # noqa: E402
from taskiq.serializers.json_serializer import JSONSerializer  # noqa: E402
from taskiq.serializers.pickle import PickleSerializer  # noqa: E402


class PModel(pydantic.BaseModel):
    a: int
    b: str = "dflt"


@dataclasses.dataclass
class PData:
    x: int
    y: List[int]

    def __post_init__(self) -> None:
        self._checked = True            # state that is not a field: not part of the dict form

    @functools.cached_property
    def total(self) -> int:             # once read, the value sits in the instance __dict__ (not a field either)
        return self.x + sum(self.y)


class PlainThing:
    """A plain class: pydantic cannot build a validator for it, so a value for a parameter annotated with it stays as sent."""


# two DIFFERENT classes with the same module and qualified name (class factories produce these)
DupA = pydantic.create_model("Dup", value=(int, ...))
DupB = pydantic.create_model("Dup", value=(str, ...))
DupA.__module__ = DupB.__module__ = __name__

from typing import Union as _Union

TYPES: Dict[str, Any] = {"plain": PlainThing, "dupa": DupA, "dupb": DupB, "num": _Union[bool, int, float],"int": int, "float": float, "str": str, "bool": bool, "listint": List[int], "model": PModel, "dc": PData,
                         "optint": Optional[int]}
# (convertible-and-changing value, not convertible value, native value)
VALUES: Dict[str, Tuple[Any, Any, Any]] = {
    "plain": ({"k": 1}, "text", [1, 2]),            # nothing converts to a plain class: every value arrives as sent
    "num": (1.0, "x", 1),
    "dupa": ({"value": "7"}, {"value": "x"}, {"value": 7}), "dupb": ({"value": "7"}, {"value": [1]}, {"value": "s"}),
    "int": ("5", "five", 5), "float": ("1.5", "x", 2.5), "str": (b"bytes".decode(), [1], "s"), "bool": ("true", "maybe", True),
    "listint": (["1", 2], "no", [1, 2]), "model": ({"a": "3"}, {"a": "x"}, {"a": 3, "b": "dflt"}),
    "dc": ({"x": "4", "y": ["5"]}, {"x": "q"}, {"x": 4, "y": [5]}), "optint": ("7", "seven", 7),
}
# falsy values that still must be converted to the annotated type
FALSY: Dict[str, Any] = {"float": 0, "bool": 0, "str": "", "listint": [], "optint": 0, "int": 0.0, "model": {}, "dc": {}}
JSON_POOL = [1, True, 1.0, 0.0, False, 0, -1, 2 ** 40, 1.25, "", "héllo ☃", True, None, [1, [2, {"k": None}]], {"a": {"b": [1.5, "x"]}}, "5", [], {}]


class CapBroker(AsyncBroker):
    def __init__(self) -> None:
        super().__init__()
        self.sent: List[Any] = []

    async def kick(self, message: Any) -> None:
        self.sent.append(message)

    async def listen(self) -> Any:  # type: ignore[override]
        raise NotImplementedError
        yield b""  # pragma: no cover


def dep_value() -> str:
    return "DEP"


def value_for(vc: str, ty: str, an: str, rng: random.Random) -> Any:
    if vc == "none":
        return None
    if vc == "model":
        return PModel(a=rng.randint(1, 9), b="x") if rng.random() < 0.5 else PModel(a=rng.randint(1, 9))   # b left unset
    if vc == "dc":
        d = PData(x=rng.randint(1, 9), y=[1, 2])
        if rng.random() < 0.5:
            _ = d.total                 # the caller looked at the cached property before sending
        return d
    if an != "T":
        return rng.choice(JSON_POOL)
    conv, nconv, native = VALUES[ty]
    if ty == "num":
        return rng.choice([1, True, 1.0, 0, False, 0.0]) if vc in ("conv", "native", "convfalsy") else nconv
    if vc == "convfalsy":
        return FALSY.get(ty, conv)
    return {"conv": conv, "nconv": nconv, "native": native}[vc]


def indep_prepare(v: Any) -> Any:
    """What a model / dataclass argument must look like on the wire (its dict form), computed without taskiq."""
    if isinstance(v, pydantic.BaseModel):
        return json_like(v.model_dump(mode="json"))
    if dataclasses.is_dataclass(v) and not isinstance(v, type):
        return dataclasses.asdict(v)
    return v


def json_like(x: Any) -> Any:
    return x


def same(a: Any, b: Any) -> bool:
    if type(a) is not type(b):
        return False
    if isinstance(a, dict):
        return a.keys() == b.keys() and all(same(a[k], b[k]) for k in a)
    if isinstance(a, (list, tuple)):
        return len(a) == len(b) and all(same(x, y) for x, y in zip(a, b))
    return a == b


def _receiver_from_cli(broker: Any, case: Dict[str, Any]) -> Any:
    """The Receiver exactly as `taskiq worker` builds it: WorkerArgs.from_cli(argv) -> start_listen(args).

    The receiver class named on the command line is a capturing subclass whose listen() returns at once; the captured
    instance (constructed by start_listen with the wiring under test) then processes the message.
    """
    import asyncio
    import signal as real_signal
    import sys
    import types

    from taskiq.cli.worker import run as cli_run
    from taskiq.cli.worker.args import WorkerArgs

    captured: List[Any] = []

    class CaptureReceiver(Receiver):
        async def listen(self, finish_event: Any) -> None:  # type: ignore[override]
            captured.append(self)

    mod = types.ModuleType("verifparmod")
    mod.broker = broker  # type: ignore[attr-defined]
    mod.CaptureReceiver = CaptureReceiver  # type: ignore[attr-defined]
    sys.modules["verifparmod"] = mod
    argv = ["verifparmod:broker", "--receiver", "verifparmod:CaptureReceiver", "--no-configure-logging", "--max-async-tasks", "3"]
    if not case.get("parse", True):
        argv.append("--no-parse")
    if case.get("noprop"):
        argv.append("--no-propagate-errors")         # must not influence argument conversion
    saved_signal = cli_run.signal
    cli_run.signal = types.SimpleNamespace(signal=lambda n, h: None, SIGINT=real_signal.SIGINT, SIGTERM=real_signal.SIGTERM,  # type: ignore[assignment]
                                           SIGHUP=real_signal.SIGHUP)
    try:
        cli_run.start_listen(WorkerArgs.from_cli(argv))
    finally:
        cli_run.signal = saved_signal  # type: ignore[assignment]
        sys.modules.pop("verifparmod", None)
        asyncio.set_event_loop(None)
    rec = captured[0]
    rec.executor = InlineExecutor()
    return rec


def _receiver_from_api(broker: Any, case: Dict[str, Any], loop: Any) -> Any:
    """The Receiver as taskiq.api.run_receiver_task builds it - the SECOND one, created after listening failed once
    (lost broker connection): the options asked for must survive the restart."""
    import asyncio

    from taskiq.api import run_receiver_task

    built: List[Any] = []

    class CaptureReceiver(Receiver):
        async def listen(self, finish_event: Any) -> None:  # type: ignore[override]
            built.append(self)
            if len(built) == 1:
                raise ConnectionError("broker connection lost")
            raise asyncio.CancelledError

    async def main() -> None:
        try:
            await run_receiver_task(broker, receiver_cls=CaptureReceiver, validate_params=case.get("parse", True), max_async_tasks=3,
                                    propagate_exceptions=not case.get("noprop", False), sync_workers=2)
        except asyncio.CancelledError:
            pass

    loop.run_coro(main())
    rec = built[-1]
    rec.executor = InlineExecutor()
    return rec


def run(case: Dict[str, Any]) -> Dict[str, Any]:
    sig = case["sig"]
    rng = random.Random(repr(case.get("seed", 0)))
    loop = VLoop()
    try:
        broker = CapBroker()
        if case.get("fmt") == "proxy_pickle":
            broker.serializer = PickleSerializer()
        elif case.get("fmt") == "json":
            broker.formatter = JSONFormatter()
        got: Dict[str, Any] = {}
        params = []
        seen_kw = False
        for i, p in enumerate(sig, start=1):
            if p["reg"] == "kw" and not seen_kw:
                params.append("*")
                seen_kw = True
            s = f"p{i}"
            if p["dep"]:
                # an annotated dependency parameter that the caller binds explicitly is converted like any other parameter
                s += (f": TYPES[{p['ty']!r}]" if p["an"] == "T" else (": Any" if p["an"] == "any" else "")) + " = TaskiqDepends(DEP)"
            else:
                if p["an"] == "T":
                    s += f": TYPES[{p['ty']!r}]"
                elif p["an"] == "any":
                    s += ": Any"
                if p["def"]:
                    s += " = 'DEFAULT'"
            params.append(s)
        src = f"async def fn({', '.join(params)}):\n    GOT.update(locals())\n    return 1\n"
        glb = {"TYPES": TYPES, "Any": Any, "TaskiqDepends": TaskiqDepends, "DEP": dep_value, "GOT": got, "__name__": __name__}
        exec(src, glb)  # noqa: S102
        if case.get("seed", 0) % 3 == 1:
            # an ordinary decorator around the task function (functools.wraps): signature and type hints are the wrapped ones
            import functools
            inner_fn = glb["fn"]

            @functools.wraps(inner_fn)
            async def decorated(*a: Any, **k: Any) -> Any:
                return await inner_fn(*a, **k)
            glb["fn"] = decorated
        receiver_early = None
        if case.get("late"):
            # the worker exists before the task is registered (dynamically defined task / in-memory broker order)
            receiver_early = Receiver(broker, executor=InlineExecutor(), validate_params=case.get("parse", True), run_startup=False)
        if case.get("shadow"):
            # a shared task of the same name with another signature exists in the global registry: the broker's own task wins,
            # for the lookup AND for the signature its arguments are parsed against
            from taskiq.brokers.shared_broker import AsyncSharedBroker
            sh_params = []
            seen_kw2 = False
            for i, p in enumerate(sig, start=1):
                if p["reg"] == "kw" and not seen_kw2:
                    sh_params.append("*")
                    seen_kw2 = True
                sh_params.append(f"p{i}: int = 0")
            sh_glb: Dict[str, Any] = {"GOT": got, "__name__": __name__}
            exec(f"async def fn({', '.join(sh_params)}):\n    GOT['__shadow_ran__'] = True\n    return 2\n", sh_glb)  # noqa: S102
            AsyncSharedBroker().register_task(sh_glb["fn"], task_name="fn")
            shadowed = True
        task = broker.register_task(glb["fn"], task_name="fn")
        args: List[Any] = []
        kwargs: Dict[str, Any] = {}
        sent: Dict[int, Any] = {}
        for c in case["call"]:
            p = sig[c["p"] - 1]
            v = value_for(c["vc"], p.get("ty", "int"), p["an"], rng)
            sent[c["p"]] = v
            if c["how"] == "pos":
                args.append(v)
            else:
                kwargs[f"p{c['p']}"] = v
        loop.run_coro(task.kiq(*args, **kwargs))
        bm = broker.sent[-1]
        # round trip of the message itself
        tm = broker.formatter.loads(bm.message)
        rt_ok = broker.formatter.loads(broker.formatter.dumps(tm).message) == tm
        if case.get("via") == "cli" and receiver_early is None:
            receiver = _receiver_from_cli(broker, case)
        elif case.get("via") == "api" and receiver_early is None:
            receiver = _receiver_from_api(broker, case, loop)
        else:
            receiver = receiver_early or Receiver(broker, executor=InlineExecutor(), validate_params=case.get("parse", True), run_startup=False)
        if case.get("seed", 0) % 4 == 2:
            # an earlier message of the same task on the same worker whose annotated arguments could not be converted:
            # conversion of later messages is not affected by it
            pa, pk = [], {}
            for c in case["call"]:
                p = sig[c["p"] - 1]
                bad = VALUES[p.get("ty", "int")][1] if p["an"] == "T" else sent[c["p"]]
                if c["how"] == "pos":
                    pa.append(bad)
                else:
                    pk[f"p{c['p']}"] = bad
            try:
                loop.run_coro(task.kiq(*pa, **pk))
                loop.run_coro(receiver.callback(broker.sent[-1].message))
            except Exception:  # noqa: BLE001
                pass
            got.clear()
        loop.run_coro(receiver.callback(bm.message))
        obs = []
        from taskiq.kicker import AsyncKicker
        for c in case["call"]:
            p = sig[c["p"] - 1]
            prepared = indep_prepare(sent[c["p"]])
            # what a JSON wire does to the prepared value (tuples -> lists etc. do not occur in the pools)
            name = f"p{c['p']}"
            if name not in got:
                obs.append({"p": c["p"], "bound": False, "eq_sent": False, "eq_conv": False, "convertible": False})
                continue
            r = got[name]
            convertible = False
            eq_conv = False
            if p["an"] == "T" and prepared is not None:
                try:
                    conv = pydantic.TypeAdapter(TYPES[p["ty"]]).validate_python(prepared)
                    convertible = True
                    eq_conv = same(r, conv) or (r == conv and type(r) is type(conv))
                except Exception:  # noqa: BLE001
                    convertible = False
            obs.append({"p": c["p"], "bound": True, "eq_sent": same(r, prepared), "eq_conv": bool(eq_conv), "convertible": convertible})
        others_ok = True
        for i, p in enumerate(sig, start=1):
            if i in sent:
                continue
            name = f"p{i}"
            if p["dep"]:
                others_ok = others_ok and got.get(name) == "DEP"
            elif p["def"]:
                others_ok = others_ok and got.get(name) == "DEFAULT"
        return {"e": "call", "sig": [{"reg": p["reg"], "an": p["an"], "def": bool(p["def"]), "dep": bool(p["dep"])} for p in sig],
                "call": [{"p": c["p"], "how": c["how"], "vc": c["vc"]} for c in case["call"]], "parse": bool(case.get("parse", True)),
                "obs": obs, "ran": bool(got) and "__shadow_ran__" not in got, "rt_ok": bool(rt_ok), "others_ok": bool(others_ok)}
    finally:
        AsyncBroker.global_task_registry.pop("fn", None)
        try:
            loop.shutdown()
        except Exception:  # noqa: BLE001
            pass


def run_batch(scn: Dict[str, Any]) -> Dict[str, Any]:
    return {"cfg": {"n": len(scn["cases"])}, "ev": [run(c) for c in scn["cases"]]}

"""Driver for LabelScheduleSource + TaskiqScheduler.on_ready (C16, label-based half).

Scenario: {"cfg": {"tasks": [{"own": true, "entries": [{"k": "cron"|"time"|"both"|"invalid", "t": 1, "a": 3, "i": 0 | explicit id}, ...]}, ...]},
           "ops": [["list"], ["fire", task_idx, pos], ["adopt", task_idx]]}   # fire the pos-th listed schedule of that task (1-based, mod);
                                                                             # adopt: register a foreign task on the own broker
Events: {"e": "list", "items": [{"task", "k", "t", "a"}]}, {"e": "fire", "task", "k", "t", "a"},
        {"e": "kick", "task", "a", "ok": payload ok}, {"e": "noop"}, {"e": "adopt", "task"}
"""
from __future__ import annotations

import datetime as _dt
import logging
from typing import Any, Dict, List

from harness.vloop import VLoop

logging.disable(logging.CRITICAL)

from taskiq import TaskiqScheduler  # noqa: E402
from taskiq.abc.broker import AsyncBroker  # noqa: E402
from taskiq.schedule_sources import LabelScheduleSource  # noqa: E402

BASE = _dt.datetime(2030, 1, 1, 12, 0, 0)
EV0 = {"e": "", "task": 0, "k": "", "t": 0, "a": 0, "ok": True, "items": []}


class RecBroker(AsyncBroker):
    def __init__(self, events: List[Dict[str, Any]]) -> None:
        super().__init__()
        self.events = events

    async def kick(self, message: Any) -> None:
        tm = self.formatter.loads(message.message)
        tm.parse_labels()
        tidx = int(tm.task_name[1:]) if tm.task_name[1:].isdigit() else 0
        a = tm.args[0] if tm.args else 0
        want_el = a if isinstance(a, int) and a % 4 != 0 else None
        foreign = [k for k in tm.labels if k.startswith("k") and k[1:].isdigit() and k != f"k{tidx}"]
        ok = (tm.kwargs == {"p": a} and "schedule_id" in tm.labels and tm.labels.get("own") == f"L{tidx}" and tm.labels.get("el") == want_el
              and tm.labels.get(f"k{tidx}") == tidx and not foreign)          # its own task's labels, nobody else's
        ev = dict(EV0)
        ev.update({"e": "kick", "task": tidx, "a": a if isinstance(a, int) else 0, "ok": bool(ok)})
        self.events.append(ev)

    async def listen(self) -> Any:  # type: ignore[override]
        raise NotImplementedError
        yield b""  # pragma: no cover


SPELL = [0]
OFFSETS: List[Any] = [None, "Asia/Kathmandu", _dt.timedelta(hours=3)]


def entry_dict(e: Dict[str, Any]) -> Dict[str, Any]:
    d: Dict[str, Any] = {"args": [e["a"]], "kwargs": {"p": e["a"]}}
    if e["a"] % 4 != 0:
        d["labels"] = {"el": e["a"]}         # labels of this entry only (some entries have none of their own)
    if e["k"] in ("cron", "both"):
        d["cron"] = "*/5 * * * *"
        if OFFSETS[e["a"] % 3] is not None:
            d["cron_offset"] = OFFSETS[e["a"] % 3]       # each entry has its own offset (or none)
    if e["k"] in ("time", "both"):
        d["time"] = BASE + _dt.timedelta(hours=e["t"])
        if SPELL[0] == 1:          # all times of a scenario are spelled alike: naive, aware UTC, or aware on a +02:00 clock
            d["time"] = d["time"].replace(tzinfo=_dt.timezone.utc)
        elif SPELL[0] == 2:
            d["time"] = d["time"].replace(tzinfo=_dt.timezone.utc).astimezone(_dt.timezone(_dt.timedelta(hours=2)))
    if e["k"] == "invalid":
        d["crom"] = "* * * * *"
    if e.get("i", 0):
        d["schedule_id"] = f"x{e['i']}"      # an explicit id; several entries of one task (of any kind) may carry the same one
    return d


def kind_of(st: Any) -> str:
    if st.cron and st.time:
        return "both"
    return "cron" if st.cron else "time"


def tid_of(st: Any) -> int:
    if st.time is None:
        return 0
    t = st.time if st.time.tzinfo is None else st.time.astimezone(_dt.timezone.utc).replace(tzinfo=None)
    return int(round((t - BASE).total_seconds() / 3600))


def run(scn: Dict[str, Any]) -> List[Dict[str, Any]]:
    cfg = scn["cfg"]
    events: List[Dict[str, Any]] = []
    shared_names: List[str] = []
    SPELL[0] = (len(scn["ops"]) + sum(len(t["entries"]) for t in cfg["tasks"])) % 3
    loop = VLoop()
    try:
        own = RecBroker(events)
        other = RecBroker(events)
        for i, t in enumerate(cfg["tasks"], start=1):
            b = own if t.get("own", True) else other

            async def fn(*a: Any, **k: Any) -> None:
                return None
            fn.__name__ = f"fn{i}"
            if not t.get("own", True) and i % 2 == 0:
                # a shared task (global registry) whose shared broker sends through `own` by default: still not own's task
                from taskiq.brokers.shared_broker import AsyncSharedBroker
                shared = AsyncSharedBroker()
                shared.default_broker(own)
                shared.register_task(fn, task_name=f"t{i}", schedule=[entry_dict(e) for e in t["entries"]], own=f"L{i}", **{f"k{i}": i})
                shared_names.append(f"t{i}")
                continue
            b.register_task(fn, task_name=f"t{i}", schedule=[entry_dict(e) for e in t["entries"]], own=f"L{i}", **{f"k{i}": i})
        if len(cfg["tasks"]) % 2 == 0 and cfg["tasks"] and cfg["tasks"][0].get("own", True):
            # a shared task that happens to have the same name as own task t1: the broker's own task wins
            from taskiq.brokers.shared_broker import AsyncSharedBroker

            async def shadow(*a: Any, **k: Any) -> None:
                return None
            AsyncSharedBroker().register_task(shadow, task_name="t1", schedule=[{"cron": "1 1 1 1 1", "args": [77]}])
            shared_names.append("t1")
        # the source's broker must see all tasks: merge registries as a shared global registry would
        own.local_task_registry.update({k: v for k, v in other.local_task_registry.items()})
        src = LabelScheduleSource(own)
        sched = TaskiqScheduler(own, [src])

        def listing() -> List[Any]:
            return loop.run_coro(src.get_schedules())

        def payload(s: Any) -> int:
            a = s.args[0] if s.args else 0
            # an entry listed with another entry's (or no) offset is not the declared entry
            if s.cron and isinstance(a, int) and s.cron_offset != OFFSETS[a % 3]:
                return 0
            task = own.find_task(s.task_name)
            want = a if isinstance(a, int) and a % 4 != 0 else None
            others = [k for k in s.labels if k.startswith("k") and k[1:].isdigit() and k != "k" + s.task_name[1:]]
            if task is not None and ("el" in task.labels or s.labels.get("el") != want or others):
                return 0          # an entry's labels leaked into the task's declared labels, or are not this entry's
            return a

        def view(sts: List[Any]) -> List[Dict[str, Any]]:
            # the order of TASKS in a listing is the registry's (a late registration comes last) and is not part of the property:
            # items are grouped by task index, the declared order of each task's entries is kept (stable sort)
            return sorted([{"task": int(s.task_name[1:]), "k": kind_of(s), "t": tid_of(s), "a": payload(s)} for s in sts], key=lambda d: d["task"])

        adopted: set = set()
        for op in scn["ops"]:
            if op[0] == "list":
                ev = dict(EV0)
                ev.update({"e": "list", "items": view(listing())})
                events.append(ev)
            elif op[0] == "adopt":
                # a task that so far belonged to another broker (or the shared registry) is registered, under the same name and
                # with the same declared entries, on the source's own broker: from now on it is one of its own tasks
                i = op[1]
                ev = dict(EV0)
                if not (1 <= i <= len(cfg["tasks"])) or cfg["tasks"][i - 1].get("own", True) or i in adopted:
                    ev["e"] = "noop"
                    events.append(ev)
                    continue
                adopted.add(i)

                async def fn2(*a: Any, **k: Any) -> None:
                    return None
                fn2.__name__ = f"fn{i}"
                own.register_task(fn2, task_name=f"t{i}", schedule=[entry_dict(e) for e in cfg["tasks"][i - 1]["entries"]], own=f"L{i}", **{f"k{i}": i})
                ev.update({"e": "adopt", "task": i})
                events.append(ev)
            elif op[0] == "fire":
                sts = [s for s in listing() if s.task_name == f"t{op[1]}"]
                if not sts:
                    ev = dict(EV0)
                    ev["e"] = "noop"
                    events.append(ev)
                    continue
                st = sts[(op[2] - 1) % len(sts)]
                ev = dict(EV0)
                ev.update({"e": "fire", "task": op[1], "k": kind_of(st), "t": tid_of(st), "a": st.args[0] if st.args else 0})
                events.append(ev)
                loop.run_coro(sched.on_ready(src, st))
        ev = dict(EV0)
        ev.update({"e": "list", "items": view(listing())})
        events.append(ev)
        return events
    finally:
        for nm in shared_names:
            AsyncBroker.global_task_registry.pop(nm, None)
        try:
            loop.shutdown()
        except Exception:  # noqa: BLE001
            pass


def normalize(cfg: Dict[str, Any]) -> Dict[str, Any]:
    return {"tasks": [{"own": bool(t.get("own", True)), "entries": [{"k": e["k"], "t": e.get("t", 0), "a": e.get("a", 0), "i": e.get("i", 0)} for e in t["entries"]]}
                      for t in cfg["tasks"]]}


if __name__ == "__main__":
    import json
    import sys
    for e in run(json.load(open(sys.argv[1]))):
        print({k: v for k, v in e.items() if v != EV0.get(k) or k == "e"})

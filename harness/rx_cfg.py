"""Scenario configuration for the receiver harness: defaults + compilation.

`normalize(cfg)` fills every field the TLA+ side reads (TLA+ records have no
optional fields) and compiles the declared dependency tree into

* ``deps``  - the dependencies in the order the resolver opens them, each with
  ``grp`` (the resolve context whose cache copy it reads its Context from;
  0 = the top-level context) and ``cgrp`` (the resolve context whose
  ``opened_dependencies`` list holds it, i.e. that tears it down);
* ``gpar``  - parent context of every sub-context, in creation order.

The compilation mirrors the *structure* of taskiq_dependencies' resolver
(cached dependencies in graphlib's static topological order, one sub-context
per ``use_cache=False`` edge).  It is used only for model conformance; the
property clauses (RxProps) never look at it except for ``style``/``grp``.
"""
from __future__ import annotations

from collections import deque
from graphlib import TopologicalSorter
from typing import Any, Dict, List

MSG_DEFAULT = {"kind": "valid", "task": "ta0", "body": "wait", "outcome": "ret", "timeout": 0, "savefail": False, "ackfail": False, "tid": 0, "slowcancel": False, "slow": False, "late": False, "afterreg": False}
MW_DEFAULT = {"pre": "", "onerr": "", "post": "", "postsave": "", "replace": False, "late": False}
DEP_DEFAULT = {"style": "gen", "cached": True, "parent": 0, "suspend": False, "fail": False, "csusp": False}


def compile_deps(decl: List[Dict[str, Any]]) -> Dict[str, Any]:
    by = {d["id"]: d for d in decl}
    kids: Dict[int, List[int]] = {}
    for d in decl:
        kids.setdefault(d["parent"], []).append(d["id"])
    order: List[Dict[str, Any]] = []
    gpar: List[int] = []

    def graph_for(target: int) -> Dict[Any, List[Any]]:
        deps: Dict[Any, List[Any]] = {}
        dq = deque([target])
        while dq:
            n = dq.popleft()
            if n in deps:
                continue
            # every generated callable takes the Context first
            deps.setdefault(n, []).append(("ctx", n))
            for c in kids.get(n, []):
                deps[n].append(c)
                if by[c]["cached"]:
                    dq.append(c)
        return {k: v for k, v in deps.items() if not (isinstance(k, tuple))}

    class Fail(Exception):
        pass

    def open_dep(did: int, grp: int, cgrp: int) -> None:
        d = dict(by[did])
        d["grp"] = grp
        d["cgrp"] = cgrp
        order.append(d)
        if d["fail"]:
            raise Fail

    def resolve(target: int, g: int) -> None:
        deps = graph_for(target)
        ordered = list(TopologicalSorter(deps).static_order())
        if len(ordered) <= 1:
            return
        for idx, dep in enumerate(ordered):
            if isinstance(dep, tuple):
                continue
            if dep != target and not by[dep]["cached"]:
                continue
            for sub in deps.get(dep, []):
                if isinstance(sub, tuple) or by[sub]["cached"]:
                    continue
                gpar.append(g)
                ng = len(gpar)
                resolve(sub, ng)
                open_dep(sub, ng, g)
            if idx < len(ordered) - 1:
                open_dep(dep, g, g)

    try:
        resolve(0, 0)
    except Fail:
        pass
    return {"deps": order, "gpar": gpar}


def normalize(cfg: Dict[str, Any]) -> Dict[str, Any]:
    c = dict(cfg)
    c.setdefault("A", 0)
    c.setdefault("P", 0)
    c.setdefault("N", 0)
    c.setdefault("W", -1)
    c.setdefault("ack", "default")
    c.setdefault("ackable", True)
    c["ackasync"] = bool(c.pop("ack_async", c.get("ackasync", False)))
    # the ack callable is a plain function returning a Future (an awaitable that is not a coroutine) whose work ends
    # only when the scenario opens gate ("ack", m, 0)
    c["ackfut"] = bool(c.pop("ack_future", c.get("ackfut", False))) and not c["ackasync"]
    c.setdefault("propagate", True)
    c["noparse"] = bool(c.get("noparse", False))
    c["synconly"] = bool(c.get("synconly", False))
    c["late_sync_first"] = bool(c.get("late_sync_first", False))
    c["bystander"] = bool(c.get("bystander", False))
    c["bsusp"] = bool(c.pop("backend_suspend", c.get("bsusp", False)))
    c["msgs"] = [{**MSG_DEFAULT, **m} for m in c.get("msgs", [])]
    for i, m in enumerate(c["msgs"], start=1):
        if not m["tid"]:
            m["tid"] = i          # task id index; a message may carry the id of an earlier one (redelivery / retry)
    c["M"] = len(c["msgs"])
    c["mws"] = [{**MW_DEFAULT, **m} for m in c.get("mws", [])]
    decl = [{**DEP_DEFAULT, **d} for d in (c.get("deps_decl") or c.get("deps") or [])]
    if decl and "grp" in decl[0]:
        raise ValueError("cfg already compiled; pass deps_decl")
    c["deps_decl"] = decl
    comp = compile_deps(decl)
    c["deps"] = comp["deps"]
    c["gpar"] = comp["gpar"]
    return c


def tla_view(c: Dict[str, Any]) -> Dict[str, Any]:
    """The part of a normalized cfg the TLA+ specs read."""
    keys = ("A", "P", "N", "W", "ack", "ackable", "ackasync", "ackfut", "M", "msgs", "mws", "deps", "gpar", "propagate", "bsusp")
    return {k: c[k] for k in keys}

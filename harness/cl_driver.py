"""Client-side driver: kicker / labels / send hooks / retry / requeue (C09, C10 send side, C11).

Scenario::

    {"cfg": {"decl": [["a", 1]], "ser": "json"|"pickle",
             "mws": [{"pre": "sync"|"async"|"", "post": ..., "replace": bool}],
             "retry": {"on": bool, "defcount": 3, "deflabel": false, "nores": true}},
     "ops": [["newk", 1], ["wl", 1, "b", 4], ["wtid", 1, 7], ["wbr", 1], ["kiq", 1, false],
             ["tkiq", false], ["run", 1, "ok"|"fail"|"nores"|"requeue"]]}

Label values are referred to by id (vid) into VALUES; observed concrete values
are mapped back to ids by exact (type, bit pattern) comparison, 0 = a value
that is not the one that was sent (changed value or type).
"""
from __future__ import annotations

import datetime as _dt
import logging
import math
import struct
import sys
from typing import Any, Dict, List, Optional

from harness.vloop import InlineExecutor, VLoop

logging.disable(logging.CRITICAL)

from taskiq import Context, ScheduleSource, TaskiqDepends  # noqa: E402
from taskiq.abc.broker import AsyncBroker  # noqa: E402
from taskiq.abc.middleware import TaskiqMiddleware  # noqa: E402
from taskiq.abc.result_backend import AsyncResultBackend  # noqa: E402
from taskiq.acks import AckableMessage  # noqa: E402
from taskiq.exceptions import BrokerError, NoResultError, SendTaskError  # noqa: E402
from taskiq.middlewares.retry_middleware import SimpleRetryMiddleware  # noqa: E402
from taskiq.receiver import Receiver  # noqa: E402
from taskiq.serializers.json_serializer import JSONSerializer  # noqa: E402
from taskiq.serializers.pickle import PickleSerializer  # noqa: E402

# vid -> (value, kind, class)
VALUES: Dict[int, Any] = {
    1: (7, "int", "small"), 2: (2 ** 70, "int", "big"), 3: (1.5, "float", "finite"),
    4: (float("inf"), "float", "nonfinite"), 5: (float("nan"), "float", "nonfinite"),
    6: (-0.0, "float", "finite"), 7: (True, "bool", "bool"), 8: (False, "bool", "bool"),
    9: ("hello", "str", "plain"), 10: ("true", "str", "boollike"), 11: ("\x00é☃ \U0001f600", "str", "unicode"),
    12: (b"abcd", "bytes", "b64text"), 13: (b"\xff\xfe\x00", "bytes", "nonutf8"), 14: (b"", "bytes", "empty"),
    15: ("123", "str", "intlike"), 16: (-(2 ** 63), "int", "big"), 17: ("", "str", "plain"),
    18: (float("-inf"), "float", "nonfinite"), 19: (10 ** 30, "int", "big"),
    27: ("True", "str", "boollike"), 28: ("false", "str", "boollike"),
    40: (1e308, "float", "finite"), 41: (5e-324, "float", "finite"), 42: (b"caf\xc3\xa9", "bytes", "utf8"),
    43: ("9" * 400, "str", "intlike"), 44: (int("9" * 400), "int", "big"), 45: ("\ud800", "str", "surrogate"),
    51: ("a\ud83db", "str", "surrogate"),
    46: (1.0, "float", "finite"), 47: (0.0, "float", "finite"), 48: (30, "int", "small"), 49: ("30", "str", "intlike"), 50: (30.5, "float", "finite"),
}
for _i in range(8):            # ints 0..7 -> vids 20..27?  keep 20..26 for ints 0..6
    if _i <= 6:
        VALUES[20 + _i] = (_i, "int", "small")
for _i in range(1, 6):         # requeue counters "1".."5" -> 31..35
    VALUES[30 + _i] = (str(_i), "str", "intlike")

WHEN_TEXT = "2031-05-06T07:08:09"
NAMES = ["a", "b", "_c", "_retries", "max_retries", "retry_on_error", "X-Taskiq-requeue", "timeout"]


def vals_table() -> List[Dict[str, str]]:
    top = max(VALUES)
    return [{"kind": VALUES[i][1], "cls": VALUES[i][2]} if i in VALUES else {"kind": "", "cls": ""} for i in range(1, top + 1)]


def _bits(x: float) -> bytes:
    return struct.pack(">d", x)


def same(a: Any, b: Any) -> bool:
    if type(a) is not type(b):
        return False
    if isinstance(a, float):
        return _bits(a) == _bits(b) or (math.isnan(a) and math.isnan(b))
    return a == b


def vid_of(v: Any) -> int:
    for i, (val, _k, _c) in VALUES.items():
        if same(v, val):
            return i
    return 0


def lab_view(labels: Dict[str, Any]) -> List[Dict[str, Any]]:
    out = []
    for n in sorted(labels):
        if n == "_gen":
            continue
        out.append({"n": n if n in NAMES else "?" + n, "v": vid_of(labels[n])})
    return out


EV_DEFAULT = {"e": "", "k": 0, "n": "", "v": 0, "x": 0, "j": 0, "i": 0, "g": 0, "s": "", "ok": True, "tid": 0, "br": 0,
              "lab": [], "pt": ""}


class Env:
    def __init__(self) -> None:
        self.events: List[Dict[str, Any]] = []
        self.nsent = 0
        self.sent: Dict[int, Any] = {}
        self.mode = "ok"
        self.cur_j = 0
        self.idn = 0
        self.kick_fail = False

    def rec(self, e: str, **kw: Any) -> None:
        ev = dict(EV_DEFAULT)
        ev["e"] = e
        ev.update(kw)
        self.events.append(ev)


def tid_code(tid: str) -> int:
    if tid.startswith("g"):
        return 100 + int(tid[1:])
    if tid.startswith("c"):
        return int(tid[1:])
    return -1


class _ListSource(ScheduleSource):
    def __init__(self) -> None:
        self.items: List[Any] = []

    async def get_schedules(self) -> List[Any]:
        return self.items

    async def add_schedule(self, schedule: Any) -> None:
        self.items.append(schedule)


class BrokerDownError(BrokerError):
    __template__ = "broker is down"


class RecBroker(AsyncBroker):
    def __init__(self, env: Env, idx: int) -> None:
        super().__init__()
        self.env = env
        self.idx = idx

    async def kick(self, message: Any) -> None:
        env = self.env
        env.nsent += 1
        j = env.nsent
        try:
            tm = self.formatter.loads(message.message)
            tm.parse_labels()
            lab = lab_view(tm.labels)
            gen = int(tm.labels.get("_gen", 0))
            dec = "ok"
        except Exception as exc:  # noqa: BLE001
            lab = []
            gen = 0
            dec = "undecodable"
        fail = env.kick_fail
        env.kick_fail = False
        env.rec("kick", j=j, tid=tid_code(message.task_id), br=self.idx, lab=lab, ok=not fail, s=dec, g=gen)
        if fail:
            if j % 2 == 0:
                raise BrokerDownError()              # a broker's own error type, from taskiq's exception family
            raise ConnectionError("broker down")
        env.sent[j] = message

    async def listen(self) -> Any:  # type: ignore[override]
        raise NotImplementedError
        yield b""  # pragma: no cover


class RecBackend(AsyncResultBackend[Any]):
    def __init__(self, env: Env) -> None:
        self.env = env
        self.stored: Dict[str, Any] = {}

    async def set_result(self, task_id: str, result: Any) -> None:
        err = result.error
        cls = "none" if err is None else ("nores" if isinstance(err, NoResultError) else type(err).__name__)
        self.stored[task_id] = result
        self.env.rec("save", j=self.env.cur_j, tid=tid_code(task_id), ok=not result.is_err, s=cls)
        self.env.rec("seen", pt="res", j=self.env.cur_j, tid=tid_code(task_id), lab=lab_view(result.labels))

    async def is_result_ready(self, task_id: str) -> bool:
        return task_id in self.stored

    async def get_result(self, task_id: str, with_logs: bool = False) -> Any:
        return self.stored[task_id]


class BodyFail(Exception):
    pass


class BodyFailBase(BaseException):
    """A failure that is not an Exception subclass (still a failed attempt)."""


def make_send_mw(env: Env, idx: int, spec: Dict[str, Any]) -> TaskiqMiddleware:
    ns: Dict[str, Any] = {}

    def gen(hook: str, mode: str) -> Any:
        def core(message: Any) -> Any:
            env.rec(hook, i=idx, g=int(message.labels.get("_gen", 0)) if hook == "presend" else
                    int(message.labels.get("_gen", 0)), tid=tid_code(message.task_id))
            if mode == "raise":
                raise RuntimeError(hook)
            if hook == "presend":
                if spec.get("replace"):
                    new = message.model_copy(deep=True)
                    new.labels["_gen"] = int(message.labels.get("_gen", 0)) + 1
                    return new
                return message
            return None
        if mode in ("sync", "raise"):
            def sync_hook(self: Any, message: Any) -> Any:
                return core(message)
            return sync_hook

        async def async_hook(self: Any, message: Any) -> Any:
            import asyncio
            await asyncio.sleep(0)
            return core(message)
        return async_hook

    if spec.get("pre"):
        ns["pre_send"] = gen("presend", spec["pre"])
    if spec.get("post"):
        ns["post_send"] = gen("postsend", spec["post"])
    return type(f"SendMw{idx}", (TaskiqMiddleware,), ns)()


class ObsMw(TaskiqMiddleware):
    """Worker-side observation point: the message given to pre_execute."""

    def __init__(self, env: Env) -> None:
        super().__init__()
        self.env = env

    def pre_execute(self, message: Any) -> Any:
        self.env.rec("seen", pt="mw", j=self.env.cur_j, tid=tid_code(message.task_id),
                     lab=lab_view({k: v for k, v in message.labels.items() if k != "_gen"}))
        return message

    def post_execute(self, message: Any, result: Any) -> None:
        self.env.rec("seen", pt="post", j=self.env.cur_j, tid=tid_code(message.task_id),
                     lab=lab_view({k: v for k, v in message.labels.items() if k != "_gen"}))


def normalize(cfg: Dict[str, Any]) -> Dict[str, Any]:
    c = dict(cfg)
    c.setdefault("decl", [])
    c["decl"] = [{"n": d[0], "v": d[1]} if isinstance(d, (list, tuple)) else d for d in c["decl"]]
    c.setdefault("ser", "json")
    c["mws"] = [{"pre": m.get("pre", ""), "post": m.get("post", ""), "replace": bool(m.get("replace", False))}
                for m in c.get("mws", [])]
    r = dict(c.get("retry") or {})
    c["retry"] = {"on": bool(r.get("on", False)), "defcount": int(r.get("defcount", 3)),
                  "deflabel": bool(r.get("deflabel", False)), "nores": bool(r.get("nores", True))}
    c["vals"] = vals_table()
    c.setdefault("nk", 3)
    c["shared"] = bool(c.get("shared", False))
    return c


def tla_view(c: Dict[str, Any]) -> Dict[str, Any]:
    return {k: c[k] for k in ("decl", "ser", "mws", "retry", "vals", "nk")}


def run(scn: Dict[str, Any]) -> List[Dict[str, Any]]:
    cfg = normalize(scn["cfg"])
    env = Env()
    loop = VLoop()
    try:
        b1 = RecBroker(env, 1)
        b2 = RecBroker(env, 2)
        for b in (b1, b2):
            b.serializer = PickleSerializer() if cfg["ser"] == "pickle" else JSONSerializer()

            def idgen() -> str:
                env.idn += 1
                return f"g{env.idn}"
            b.id_generator = idgen
        b1.result_backend = RecBackend(env)
        send_mws = [make_send_mw(env, idx, spec) for idx, spec in enumerate(cfg["mws"], start=1)]
        if send_mws:
            b1.add_middlewares(send_mws[0])               # both registration styles, one after the other
            if len(send_mws) > 1:
                b1.with_middlewares(*send_mws[1:])
        b1.with_middlewares(ObsMw(env))
        if cfg["retry"]["on"]:
            retry_cls: Any = SimpleRetryMiddleware
            if cfg["retry"]["defcount"] % 2 == 1:
                class ProjectRetry(SimpleRetryMiddleware):        # a project's own subclass: on_error is inherited
                    pass
                retry_cls = ProjectRetry
            retry_mw = retry_cls(default_retry_count=cfg["retry"]["defcount"], default_retry_label=cfg["retry"]["deflabel"],
                                 no_result_on_retry=cfg["retry"]["nores"])
            if cfg["retry"]["deflabel"]:
                RecBroker(env, 3).add_middlewares(retry_mw)       # the instance served another broker before (broker factory called twice)
            b1.add_middlewares(retry_mw)
        decl = {d["n"]: VALUES[d["v"]][0] for d in cfg["decl"]}

        async def t(x: int, y: str = "k", when: Optional[_dt.datetime] = None, ctx: Context = TaskiqDepends()) -> Any:
            # `when` travels as ISO text and is parsed into a datetime by the worker (kept as text with parsing disabled);
            # a retry / requeue has to put it on the wire again
            when_ok = (isinstance(when, str) and when == WHEN_TEXT) if cfg.get("noparse") else (when == _dt.datetime.fromisoformat(WHEN_TEXT))
            env.rec("exec", j=env.cur_j, tid=tid_code(ctx.message.task_id), x=x, s=y if when_ok else y + "!when")
            env.rec("seen", pt="ctx", j=env.cur_j, tid=tid_code(ctx.message.task_id),
                    lab=lab_view({k: v for k, v in ctx.message.labels.items() if k != "_gen"}))
            mode = env.mode
            if mode == "fail":
                raise BodyFail("boom")
            if mode == "failb":
                raise BodyFailBase("boom")
            if mode == "nores":
                raise NoResultError
            if mode == "requeue":
                await ctx.requeue()
            return x

        if cfg.get("shared"):
            # the second kicker() site: a shared task sent through the shared broker's default broker
            from taskiq.brokers.shared_broker import AsyncSharedBroker
            shared = AsyncSharedBroker()
            shared.default_broker(b1)
            task = shared.register_task(t, task_name="t", **decl)       # lives in the global registry only: every broker's worker finds it there
        else:
            task = b1.register_task(t, task_name="t", **decl)
        # label typing, retries and hooks must not depend on argument parsing or on exception propagation into dependencies
        receiver = Receiver(b1, executor=InlineExecutor(), run_startup=False, validate_params=not cfg.get("noparse", False),
                            propagate_exceptions=not cfg.get("noprop", False))
        kickers: Dict[int, Any] = {}
        delivered: Dict[int, Any] = {}

        def snap() -> None:
            env.rec("decl", lab=lab_view(task.labels))

        async def do_kiq(kicker_or_task: Any, bad: bool = False) -> None:
            try:
                if bad:
                    await kicker_or_task.kiq(lambda: 5, y="z", when=WHEN_TEXT)       # an argument no bundled serializer can encode
                else:
                    await kicker_or_task.kiq(5, y="z", when=WHEN_TEXT)
                env.rec("kiqret", s="ok")
            except SendTaskError:
                env.rec("kiqret", s="SendTaskError")
            except Exception as exc:  # noqa: BLE001
                env.rec("kiqret", s="other:" + type(exc).__name__)

        snap()
        for op in scn["ops"]:
            name = op[0]
            if name == "newk":
                env.rec("newk", k=op[1])
                kickers[op[1]] = task.kicker()
            elif name == "wl":
                if op[1] not in kickers:
                    env.rec("noop")
                    snap()
                    continue
                env.rec("wl", k=op[1], n=op[2], v=op[3])
                kickers[op[1]].with_labels(**{op[2]: VALUES[op[3]][0]})
            elif name == "wtid":
                if op[1] not in kickers:
                    env.rec("noop")
                    snap()
                    continue
                env.rec("wtid", k=op[1], x=op[2])
                kickers[op[1]].with_task_id(f"c{op[2]}")
            elif name == "wbr":
                if op[1] not in kickers:
                    env.rec("noop")
                    snap()
                    continue
                env.rec("wbr", k=op[1])
                kickers[op[1]].with_broker(b2)
            elif name == "kiq":
                if op[1] not in kickers:
                    env.rec("noop")
                    snap()
                    continue
                env.rec("kiq", k=op[1], ok=not op[2])
                env.kick_fail = bool(op[2])
                loop.run_coro(do_kiq(kickers[op[1]]))
            elif name == "kiqbad":
                if op[1] not in kickers:
                    env.rec("noop")
                    snap()
                    continue
                env.rec("kiq", k=op[1], ok=False, s="noser")
                loop.run_coro(do_kiq(kickers[op[1]], bad=True))
            elif name == "skiq":
                if op[1] not in kickers:
                    env.rec("noop")
                    snap()
                    continue
                # the kicker creates a schedule (kept by a list-backed source) and the schedule object is kicked by hand:
                # a send with exactly the labels / id / broker of that kicker
                created = loop.run_coro(kickers[op[1]].schedule_by_time(_ListSource(), _dt.datetime(2040, 1, 1), 5, y="z", when=WHEN_TEXT))
                env.rec("kiq", k=op[1], ok=True)
                env.kick_fail = False

                async def _skiq() -> None:
                    try:
                        await created.kiq()
                        env.rec("kiqret", s="ok")
                    except SendTaskError:
                        env.rec("kiqret", s="SendTaskError")
                    except Exception as exc:  # noqa: BLE001
                        env.rec("kiqret", s="other:" + type(exc).__name__)
                loop.run_coro(_skiq())
            elif name == "tkiq":
                env.rec("kiq", k=0, ok=not op[1])
                env.kick_fail = bool(op[1])
                loop.run_coro(do_kiq(task))
            elif name in ("run", "run_last", "rerun"):
                if name == "run_last":
                    live = [q for q, m_ in env.sent.items() if m_ is not None]
                    j, mode = (max(live) if live else 0), op[1]
                else:
                    j, mode = op[1], op[2]
                if name == "rerun":
                    # at-least-once delivery: the broker hands the very same payload to the worker a second time
                    msg = delivered.get(j)
                else:
                    msg = env.sent.get(j)
                    delivered[j] = msg
                if msg is None or getattr(msg, "_verif_ran", False):
                    env.rec("noop")
                    snap()
                    continue
                env.rec("run", j=j, s=mode)
                env.sent[j] = None
                env.mode = mode
                env.cur_j = j
                # the broker hands the message over with an acknowledge callable and delivers it again (at most twice more)
                # when a processing that ended normally did not acknowledge it
                acked: List[int] = []
                am = AckableMessage(data=msg.message, ack=lambda: acked.append(1))
                ended = "ok"
                if mode == "failk":
                    env.mode = "fail"
                for _ in range(3):
                    env.kick_fail = mode == "failk"        # the broker refuses the re-send of this attempt
                    try:
                        loop.run_coro(receiver.callback(am))
                    except Exception:  # noqa: BLE001
                        ended = "raised"
                        break
                    if acked:
                        break
                env.kick_fail = False
                env.rec("ran", j=j, s=ended)
                env.cur_j = 0
            else:
                raise ValueError(op)
            snap()
        return env.events
    finally:
        AsyncBroker.global_task_registry.pop("t", None)
        try:
            loop.shutdown()
        except Exception:  # noqa: BLE001
            pass


if __name__ == "__main__":
    import json
    for ev in run(json.load(open(sys.argv[1]))):
        print({k: v for k, v in ev.items() if v != EV_DEFAULT.get(k) or k == "e"})

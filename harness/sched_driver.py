"""Scheduler driver: the real run_scheduler_loop / TaskiqScheduler.on_ready on the virtual clock (C15, C16).

Scenario::

    {"cfg": {"start": 700,              # ms after a minute boundary B0 (B0 = an hour boundary)
             "horizon": 200000,         # ms after B0 at which the run ends
             "srcs": [{"lat": 0, "pre": ""|"sync"|"async", "post": "sync"|"async", "removes": true,
                       "fail": [2],     # poll numbers (1-based, per source) at which get_schedules raises
                       "sched": [{"sid": 1, "kind": "cron", "mins": [0, 2, 4]},      # minute-of-hour values
                                 {"sid": 2, "kind": "once", "T": 61500, "cancel": false}]}],
             "kickfail": [[2, 1]],      # the n-th kick of schedule sid fails
             "kicklat": 0},
     "steps": [[65000, "add", 1, {"sid": 3, "kind": "once", "T": 64000}], [70000, "remove", 1, 1]]}

Events: {"e": poll|listed|presend|kick|postsend|add|remove|eot, "src", "sid", "t" (ms after B0), "n", "ok", "s"}.
"""
from __future__ import annotations

import sys

import asyncio
import datetime as _dt
import logging
from typing import Any, Dict, List, Optional

from harness.vloop import VLoop

logging.disable(logging.CRITICAL)

from taskiq import ScheduleSource, TaskiqScheduler  # noqa: E402
from taskiq.abc.broker import AsyncBroker  # noqa: E402
from taskiq.cli.scheduler import run as sched_run  # noqa: E402
from taskiq.exceptions import ScheduledTaskCancelledError  # noqa: E402
from taskiq.kicker import AsyncKicker  # noqa: E402
from taskiq.scheduler.scheduled_task import ScheduledTask  # noqa: E402

B0 = _dt.datetime(2024, 5, 1, 10, 0, 0, tzinfo=_dt.timezone.utc)
EV0 = {"e": "", "src": 0, "sid": 0, "t": 0, "n": 0, "ok": True, "s": "", "ids": []}


class Env:
    def __init__(self, loop: VLoop) -> None:
        self.loop = loop
        self.events: List[Dict[str, Any]] = []
        self.closed = False

    def ms(self) -> int:
        return int(round(self.loop.time() * 1000))

    def rec(self, e: str, **kw: Any) -> None:
        if self.closed:
            return
        ev = dict(EV0)
        ev["e"] = e
        ev["t"] = self.ms()
        ev.update(kw)
        self.events.append(ev)


def _install_clock(loop: VLoop) -> None:
    class FakeDT(_dt.datetime):
        @classmethod
        def now(cls, tz: Any = None) -> Any:  # type: ignore[override]
            t = B0 + _dt.timedelta(microseconds=int(round(loop.time() * 1e6)))
            if tz is None:
                # the loop uses naive local time only for boundary arithmetic; host zone = UTC here
                return t.replace(tzinfo=None)
            return t.astimezone(tz)

        @classmethod
        def utcnow(cls) -> Any:  # type: ignore[override]
            return (B0 + _dt.timedelta(microseconds=int(round(loop.time() * 1e6)))).replace(tzinfo=None)
    sched_run.datetime = FakeDT  # type: ignore[attr-defined]


PAYLOAD_ARGS = [1, "two", {"k": [3, 4.5, None]}]
PAYLOAD_KW = {"x": [1, 2], "y": {"z": "w"}}


def mk_task(spec: Dict[str, Any]) -> ScheduledTask:
    sid = spec["sid"]
    labels = {"lbl": f"L{sid}", "n": sid}
    tn = spec.get("tn") or sid          # several schedules may belong to the same task
    if spec.get("lblsid"):
        labels["schedule_id"] = "s9999"     # labels copied from an earlier scheduled message: the schedule's own id must win
    if spec["kind"] == "cron":
        mins = spec["mins"]
        expr = ("*" if len(mins) == 60 else ",".join(str(m) for m in mins)) + " * * * *"
        if spec.get("bad"):
            expr = "*/5 * * *"              # a typo: four fields only - this schedule never fires, the others are not affected
        return ScheduledTask(task_name=f"task{tn}", labels=labels, args=PAYLOAD_ARGS + [sid], kwargs=dict(PAYLOAD_KW, sid=sid),
                             schedule_id=f"s{sid}", cron=expr)
    T = B0 + _dt.timedelta(milliseconds=spec["T"])
    if spec.get("naive"):
        T = T.replace(tzinfo=None)
    elif spec.get("tzh"):
        T = T.astimezone(_dt.timezone(_dt.timedelta(hours=spec["tzh"])))     # the same instant, read on another clock
    return ScheduledTask(task_name=f"task{tn}", labels=labels, args=PAYLOAD_ARGS + [sid], kwargs=dict(PAYLOAD_KW, sid=sid),
                         schedule_id=f"s{sid}", time=T)


class ScriptedSource(ScheduleSource):
    def __init__(self, env: Env, idx: int, spec: Dict[str, Any], broker: Any = None) -> None:
        self.env = env
        self.idx = idx
        self.spec = spec
        self.items: Dict[int, ScheduledTask] = {}
        self.specs: Dict[int, Dict[str, Any]] = {}
        self.npolls = 0
        self.broker = broker
        self.kickers: Dict[Any, Any] = {}
        for s in spec.get("sched", []):
            self.add(s)
        if spec.get("pre") == "async" and spec.get("future"):
            self.pre_send = self._pre_future  # type: ignore[method-assign]
        elif spec.get("pre") == "async":
            self.pre_send = self._pre_async  # type: ignore[method-assign]
        elif spec.get("pre") == "sync":
            self.pre_send = self._pre_sync  # type: ignore[method-assign]
        if spec.get("post", "sync") == "async" and spec.get("future"):
            self.post_send = self._post_future  # type: ignore[method-assign]
        elif spec.get("post", "sync") == "async":
            self.post_send = self._post_async  # type: ignore[method-assign]
        else:
            self.post_send = self._post_sync  # type: ignore[method-assign]

    def add(self, s: Dict[str, Any]) -> None:
        self.specs[s["sid"]] = s
        if s.get("viak") and self.broker is not None:
            # the schedule is created the public way: kicker.schedule_by_cron / schedule_by_time -> source.add_schedule()
            want = mk_task(s)
            # one prepared kicker per task name, used again for every further schedule of that task
            # (schedules that leave the id to the kicker share one that is never given an id: each gets a generated id of its own)
            kicker = self.kickers.setdefault((want.task_name, bool(s.get("noid"))),
                                             AsyncKicker(task_name=want.task_name, broker=self.broker, labels={}))
            kicker = kicker.with_labels(**{k: v for k, v in want.labels.items() if k != "schedule_id"})
            if not s.get("noid"):
                kicker = kicker.with_schedule_id(want.schedule_id)
            if want.cron is not None:
                coro = kicker.schedule_by_cron(self, want.cron, *want.args, **want.kwargs)
            else:
                coro = kicker.schedule_by_time(self, want.time, *want.args, **want.kwargs)
            created = self.env.loop.run_coro(coro)
            if (not s.get("noid") and created.schedule_id != want.schedule_id) or s["sid"] not in self.items:
                self.env.rec("loop_raised", s="schedule_not_created")
            return
        t = mk_task(s)
        if s.get("noid"):
            # created without an explicit schedule_id: the model's default factory gives every schedule its own id
            t = ScheduledTask(task_name=t.task_name, labels=t.labels, args=t.args, kwargs=t.kwargs, cron=t.cron, time=t.time)
        self.items[s["sid"]] = t

    async def add_schedule(self, schedule: ScheduledTask) -> None:
        self.items[int(schedule.kwargs["sid"])] = schedule

    async def get_schedules(self) -> List[ScheduledTask]:
        self.npolls += 1
        n = self.npolls
        fail = n in self.spec.get("fail", [])
        self.env.rec("poll", src=self.idx, n=n, ok=not fail)
        if self.spec.get("lat"):
            await asyncio.sleep(self.spec["lat"] / 1000.0)
        if fail:
            raise ConnectionError("source down")
        self.env.rec("listed", src=self.idx, n=n, ids=sorted(k for k in self.items if not self.specs.get(k, {}).get("bad")))
        return [self.items[k] for k in sorted(self.items)]

    def _sid(self, task: ScheduledTask) -> int:
        return int(task.kwargs["sid"])          # every schedule carries its number in its payload (ids may be generated)

    def _pre(self, task: ScheduledTask) -> None:
        sid = self._sid(task)
        cancel = bool(self.specs.get(sid, {}).get("cancel"))
        self.env.rec("presend", src=self.idx, sid=sid, ok=not cancel)
        if cancel:
            raise ScheduledTaskCancelledError
        if self.spec.get("edit"):
            task.labels["stamp"] = f"S{sid}"        # pre_send runs FIRST: what it puts on the schedule is sent

    def _pre_sync(self, task: ScheduledTask) -> None:
        self._pre(task)

    async def _pre_async(self, task: ScheduledTask) -> None:
        await asyncio.sleep(0)
        self._pre(task)

    def _post(self, task: ScheduledTask) -> None:
        sid = self._sid(task)
        self.env.rec("postsend", src=self.idx, sid=sid)
        if self.spec.get("removes", True) and task.time is not None and task.cron is None:
            self.items.pop(sid, None)

    def _pre_future(self, task: ScheduledTask) -> Any:
        # a plain function that returns an awaitable which is not a coroutine
        async def later() -> None:
            self._pre(task)
        return asyncio.ensure_future(later())

    def _post_future(self, task: ScheduledTask) -> Any:
        async def later() -> None:
            self._post(task)
        return asyncio.ensure_future(later())

    def _post_sync(self, task: ScheduledTask) -> None:
        self._post(task)

    async def _post_async(self, task: ScheduledTask) -> None:
        await asyncio.sleep(0)
        self._post(task)


def make_label_source(env: Env, idx: int, spec: Dict[str, Any], broker: Any) -> Any:
    """The real LabelScheduleSource over tasks declared with schedule labels; get_schedules/post_send are observed."""
    from taskiq.schedule_sources import LabelScheduleSource

    groups: Dict[int, List[Dict[str, Any]]] = {}
    for sp in spec.get("sched", []):
        sid = sp["sid"]
        if sp["kind"] == "cron":
            mins = sp["mins"]
            entry: Dict[str, Any] = {"cron": ("*" if len(mins) == 60 else ",".join(str(m) for m in mins)) + " * * * *"}
        else:
            T = B0 + _dt.timedelta(milliseconds=sp["T"])
            entry = {"time": T.replace(tzinfo=None) if sp.get("naive") else T}
        entry.update({"args": PAYLOAD_ARGS + [sid], "kwargs": dict(PAYLOAD_KW, sid=sid), "labels": {"lbl": f"L{sid}", "n": sid}})

        groups.setdefault(sp.get("ltask", sid), []).append(entry)      # several entries may be declared on one task
    for g, entries in groups.items():
        async def fn(*a: Any, **k: Any) -> None:
            return None
        fn.__name__ = f"lfn{g}"
        broker.register_task(fn, task_name=f"task{g}", schedule=entries)

    class ObservedLabelSource(LabelScheduleSource):
        npolls = 0

        async def get_schedules(self) -> List[ScheduledTask]:
            self.npolls += 1
            n = self.npolls
            fail = n in spec.get("fail", [])
            env.rec("poll", src=idx, n=n, ok=not fail)
            if fail:
                raise ConnectionError("source down")
            res = await super().get_schedules()
            env.rec("listed", src=idx, n=n, ids=sorted(int(t.kwargs["sid"]) for t in res))
            return res

        def post_send(self, scheduled_task: ScheduledTask) -> None:
            env.rec("postsend", src=idx, sid=int(scheduled_task.kwargs["sid"]))
            super().post_send(scheduled_task)

    return ObservedLabelSource(broker)


class RecBroker(AsyncBroker):
    def __init__(self, env: Env, cfg: Dict[str, Any]) -> None:
        super().__init__()
        self.env = env
        self.cfg = cfg
        self.nk: Dict[int, int] = {}

    async def kick(self, message: Any) -> None:
        tm = self.formatter.loads(message.message)
        tm.parse_labels()
        sid_l = str(tm.labels.get("schedule_id", ""))
        sid = int(sid_l[1:]) if sid_l.startswith("s") and sid_l[1:].isdigit() else 0
        from_label_source = False
        noid = False
        if sid == 0 and isinstance(tm.kwargs.get("sid"), int) and self.cfg.get("_noid", {}).get(tm.kwargs["sid"]):
            sid = tm.kwargs["sid"]               # a schedule created without an explicit id: the id on the wire is a generated one
            noid = True
        if sid == 0 and tm.task_name.startswith("task") and tm.task_name[4:].isdigit() and sid_l:
            # label-based source: generated schedule ids; the entry is recognised by its own arguments
            sid = tm.kwargs["sid"] if isinstance(tm.kwargs.get("sid"), int) else int(tm.task_name[4:])
            from_label_source = True
        self.nk[sid] = self.nk.get(sid, 0) + 1
        fail = [sid, self.nk[sid]] in self.cfg.get("kickfail", [])
        exp_labels = {"lbl": f"L{sid}", "n": sid, "schedule_id": f"s{sid}"}
        if noid:
            exp_labels["schedule_id"] = tm.labels.get("schedule_id") if len(sid_l) >= 8 else "missing"
        if self.cfg.get("_edit", {}).get(sid):
            exp_labels["stamp"] = f"S{sid}"
        if self.cfg.get("_viak", {}).get(sid) and tm.labels.get("n") == str(sid):
            # a schedule created through kicker.schedule_by_*() stores its labels in wire form (strings): that is the
            # schedule's payload (observation recorded in DESIGN.md: label types are not kept on this route)
            tm.labels["n"] = sid
        tn = self.cfg.get("_tn", {}).get(sid, sid)
        payload_ok = ((tm.task_name == f"task{tn}" or from_label_source) and tm.args == PAYLOAD_ARGS + [sid] and tm.kwargs == dict(PAYLOAD_KW, sid=sid)
                      and (from_label_source or tm.labels == exp_labels) and tm.labels.get("lbl") == f"L{sid}"
                      and type(tm.labels.get("n")) is int)
        self.env.rec("kick", sid=sid, n=self.nk[sid], ok=not fail, s="payload_ok" if payload_ok else "payload_bad")
        if self.cfg.get("kicklat"):
            await asyncio.sleep(self.cfg["kicklat"] / 1000.0)
        if fail:
            raise ConnectionError("broker down")

    async def listen(self) -> Any:  # type: ignore[override]
        raise NotImplementedError
        yield b""  # pragma: no cover


def normalize(cfg: Dict[str, Any]) -> Dict[str, Any]:
    c = dict(cfg)
    c.setdefault("start", 0)
    c.setdefault("horizon", 180000)
    c.setdefault("kickfail", [])
    c.setdefault("kicklat", 0)
    srcs = []
    for s in c.get("srcs", []):
        s2 = {"lat": s.get("lat", 0), "pre": s.get("pre", ""), "post": s.get("post", "sync"), "removes": s.get("removes", True),
              "edit": bool(s.get("edit", False)) and bool(s.get("pre", "")),
              "future": bool(s.get("future", False)),
              "fail": list(s.get("fail", [])), "sched": [norm_sched(x) for x in s.get("sched", [])]}
        srcs.append(s2)
    c["srcs"] = srcs
    c["_tn"] = {x["sid"]: (x["tn"] or x["sid"]) for s_ in srcs for x in s_["sched"]}
    c["_viak"] = {x["sid"]: x["viak"] for s_ in srcs for x in s_["sched"]}
    c["_edit"] = {x["sid"]: s_["edit"] for s_ in srcs for x in s_["sched"]}
    c["_noid"] = {x["sid"]: x["noid"] for s_ in srcs for x in s_["sched"]}
    c["_srcedit"] = [s_["edit"] for s_ in srcs]
    c["minute"] = 60000
    c["second"] = 1000
    return c


def norm_sched(x: Dict[str, Any]) -> Dict[str, Any]:
    return {"sid": x["sid"], "kind": x["kind"], "mins": list(x.get("mins", [])), "T": x.get("T", 0), "cancel": bool(x.get("cancel", False)),
            "naive": bool(x.get("naive", False)), "tn": x.get("tn", 0), "lblsid": bool(x.get("lblsid", False)),
            "ltask": int(x.get("ltask", 0) or x["sid"]), "viak": bool(x.get("viak", False)), "tzh": int(x.get("tzh", 0)), "noid": bool(x.get("noid", False)), "bad": bool(x.get("bad", False))}


def run(scn: Dict[str, Any]) -> List[Dict[str, Any]]:
    cfg = normalize(scn["cfg"])
    loop = VLoop()
    env = Env(loop)
    try:
        _install_clock(loop)
        skipfirst = bool(scn["cfg"].get("skipfirst")) and scn["cfg"].get("via") == "cli" and cfg["start"] % 60000 == 0 and cfg["start"] >= 60000
        # with --skip-first-run the process starts somewhere inside the minute before `start` and must stay silent until then
        loop._vnow = (cfg["start"] - (scn["cfg"].get("skipoff", 29600) if skipfirst else 0)) / 1000.0
        broker = RecBroker(env, cfg)
        sources = [make_label_source(env, i, s, broker) if scn["cfg"]["srcs"][i - 1].get("label") else ScriptedSource(env, i, s, broker)
                   for i, s in enumerate(cfg["srcs"], start=1)]
        scheduler = TaskiqScheduler(broker, sources)  # type: ignore[arg-type]
        via = scn["cfg"].get("via", "loop")
        if via == "api":
            # programmatic entry point: starts the sources, then runs the loop
            from taskiq.api import run_scheduler_task
            task = loop.create_task(run_scheduler_task(scheduler, run_startup=bool(cfg["start"] % 2)))
        elif via == "cli":
            # command line entry point: SchedulerArgs.from_cli(argv) -> run_scheduler(args); the scheduler object is found by the
            # real import_object() in a module registered as sys.modules["verifschedmod"]
            import types
            from taskiq.cli.scheduler.args import SchedulerArgs
            mod = types.ModuleType("verifschedmod")
            mod.scheduler = scheduler  # type: ignore[attr-defined]
            sys.modules["verifschedmod"] = mod
            args = SchedulerArgs.from_cli(["verifschedmod:scheduler", "--no-configure-logging"] + (["--skip-first-run"] if skipfirst else []))
            task = loop.create_task(sched_run.run_scheduler(args))
        else:
            task = loop.create_task(sched_run.run_scheduler_loop(scheduler))
        loop.settle()
        for step in sorted(scn.get("steps", []), key=lambda s: s[0]):
            t, op, src = step[0], step[1], step[2]
            if t > cfg["horizon"]:
                break
            loop.advance_to(t / 1000.0)
            if op == "add":
                spec = norm_sched(step[3])
                cfg["_tn"][spec["sid"]] = spec["tn"] or spec["sid"]
                cfg["_viak"][spec["sid"]] = spec["viak"]
                cfg["_edit"][spec["sid"]] = cfg["_srcedit"][src - 1]
                cfg["_noid"][spec["sid"]] = spec["noid"]
                env.rec("add", src=src, sid=spec["sid"], s=spec["kind"], n=spec["T"], ok=not spec["cancel"], ids=spec["mins"])
                sources[src - 1].add(spec)
            elif op == "remove":
                env.rec("remove", src=src, sid=step[3])
                sources[src - 1].items.pop(step[3], None)
        loop.advance_to(cfg["horizon"] / 1000.0)
        alive = not task.done()
        failed = task.done() and not task.cancelled() and task.exception() is not None
        failure = type(task.exception()).__name__ if failed else ""
        if scn["cfg"].get("stop_at_end"):
            # the scheduler is stopped (main coroutine cancelled, then every remaining task, as asyncio.run does)
            loop._enter()
            try:
                task.cancel()
            finally:
                loop._leave()
            loop.settle()
            loop._enter()
            try:
                for t_ in asyncio.all_tasks(loop):
                    t_.cancel()
            finally:
                loop._leave()
            loop.settle()
        env.rec("eot", ok=alive)
        if failed:
            env.rec("loop_raised", s=failure)
        env.closed = True
        return env.events
    finally:
        env.closed = True
        sys.modules.pop("verifschedmod", None)
        try:
            loop.shutdown()
        except Exception:  # noqa: BLE001
            pass


if __name__ == "__main__":
    import json
    import sys
    for ev in run(json.load(open(sys.argv[1]))):
        print({k: v for k, v in ev.items() if v != EV0.get(k) or k in ("e", "t")})

"""Virtual-time, steppable asyncio event loop.

Time never comes from the wall clock: ``loop.time()`` is a virtual clock that
is moved only by ``advance()`` / ``advance_to()`` (to the next timer) -- never
while there is something ready to run.  The ready queue stays FIFO, so only
schedules stock asyncio can produce are explored.

Clock unit: seconds (float).  All scenario durations are multiples of 0.1 s
so that instants map to integer model ticks (see ``ticks``).
"""
from __future__ import annotations

import asyncio
import concurrent.futures
import heapq
from asyncio import events
from typing import Any, Callable, Optional


class InlineExecutor(concurrent.futures.Executor):
    """Executor that runs the submitted function immediately (no threads)."""

    def submit(self, fn: Callable[..., Any], /, *args: Any, **kwargs: Any) -> "concurrent.futures.Future[Any]":  # type: ignore[override]
        fut: "concurrent.futures.Future[Any]" = concurrent.futures.Future()
        try:
            fut.set_result(fn(*args, **kwargs))
        except BaseException as exc:  # noqa: BLE001
            fut.set_exception(exc)
        return fut


class VLoop(asyncio.SelectorEventLoop):
    """SelectorEventLoop with a virtual clock and explicit stepping."""

    def __init__(self) -> None:
        super().__init__()
        self._vnow = 0.0
        self._allow_advance = False
        self._advance_limit: Optional[float] = None
        real_select = self._selector.select

        def vselect(timeout: Optional[float] = None) -> Any:
            evs = real_select(0)
            if evs:
                return evs
            if self._allow_advance and timeout is not None and timeout > 0:
                target = self._vnow + timeout
                if self._advance_limit is not None and target > self._advance_limit:
                    target = self._advance_limit
                if target > self._vnow:
                    self._vnow = target
            return evs

        self._selector.select = vselect  # type: ignore[method-assign]
        self._clock_resolution = 1e-9
        self.exceptions: list[Any] = []
        self.crashes: list[Any] = []
        self.on_crash: Any = None
        self.set_exception_handler(self._on_exc)

    def _on_exc(self, loop: Any, ctx: Any) -> None:
        self.exceptions.append(ctx)

    # -- clock ---------------------------------------------------------
    def time(self) -> float:  # type: ignore[override]
        return self._vnow

    def ticks(self) -> int:
        return int(round(self._vnow * 10))

    # -- stepping ------------------------------------------------------
    def _enter(self) -> None:
        self._thread_id = __import__("threading").get_ident()
        events._set_running_loop(self)

    def _leave(self) -> None:
        events._set_running_loop(None)
        self._thread_id = None

    def is_running_inside(self) -> bool:
        """True while a callback of this loop is being run by step()/settle() in the current thread."""
        return events._get_running_loop() is self

    def has_ready(self) -> bool:
        if self._ready:
            return True
        # a timer that is already due counts as ready work
        while self._scheduled and self._scheduled[0]._cancelled:
            h = heapq.heappop(self._scheduled)
            h._scheduled = False
            self._timer_cancelled_count -= 1
        return bool(self._scheduled) and self._scheduled[0]._when <= self._vnow + 1e-9

    def step(self, k: int = 1) -> int:
        """Run up to k loop iterations without advancing the clock."""
        n = 0
        self._enter()
        try:
            self._allow_advance = False
            while n < k and self.has_ready():
                try:
                    self._run_once()
                except (SystemExit, KeyboardInterrupt) as exc:
                    # asyncio re-raises these out of the loop: in a real worker the process dies here
                    self.crashes.append(exc)
                    if self.on_crash is not None:
                        self.on_crash(exc)
                n += 1
        finally:
            self._leave()
        return n

    def settle(self, limit: int = 100000) -> int:
        """Run until nothing is ready; the clock does not move."""
        n = self.step(limit)
        if n >= limit:
            raise RuntimeError("settle(): loop did not become quiescent")
        return n

    def next_timer(self) -> Optional[float]:
        while self._scheduled and self._scheduled[0]._cancelled:
            h = heapq.heappop(self._scheduled)
            h._scheduled = False
            self._timer_cancelled_count -= 1
        if not self._scheduled:
            return None
        return self._scheduled[0]._when

    def advance(self, limit: Optional[float] = None) -> bool:
        """Jump to the earliest timer (not beyond limit) and settle."""
        self.settle()
        nt = self.next_timer()
        if nt is None:
            if limit is not None and limit > self._vnow:
                self._vnow = limit
            return False
        if limit is not None and nt > limit + 1e-9:
            self._vnow = max(self._vnow, limit)
            return False
        if nt > self._vnow:
            self._vnow = nt
        self.settle()
        return True

    def advance_to(self, t: float) -> None:
        """Fire all timers up to and including t, then set the clock to t."""
        while self.advance(limit=t):
            pass
        if t > self._vnow:
            self._vnow = t
        self.settle()

    def run_coro(self, coro: Any, horizon: float = 1e9) -> Any:
        """Run a coroutine to completion, advancing virtual time as needed."""
        task = self.create_task(coro)
        self.settle()
        while not task.done():
            if not self.advance(limit=horizon):
                if not task.done():
                    raise RuntimeError("run_coro(): deadlock (no timers, task pending)")
        return task.result()

    def shutdown(self) -> None:
        """Cancel whatever is left and close."""
        self._enter()
        try:
            for t in asyncio.all_tasks(self):
                t.cancel()
        finally:
            self._leave()
        try:
            self.settle()
        except Exception:  # noqa: BLE001
            pass
        self.close()

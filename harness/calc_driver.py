"""Driver for get_task_delay() under a controlled clock (C13, C14)."""
from __future__ import annotations

import datetime as _dt
import functools
from typing import Any, Dict, List
from zoneinfo import ZoneInfo

import pytz

from taskiq.cli.scheduler import run as sched_run
from taskiq.scheduler.scheduled_task import ScheduledTask

EPOCH = _dt.datetime(1970, 1, 1, tzinfo=_dt.timezone.utc)
ZONES = ["UTC", "Europe/Berlin", "America/New_York", "Asia/Kolkata", "Asia/Kathmandu", "Australia/Lord_Howe",
         "Pacific/Chatham", "America/St_Johns", "Europe/London", "America/Sao_Paulo", "Asia/Tehran", "Pacific/Apia",
         "Africa/Casablanca", "Australia/Adelaide",
         # valid names that are not in pytz's "common" subset (old spellings, fixed-offset zones)
         "Asia/Calcutta", "Etc/GMT+5", "Europe/Kiev"]


def inst_to_dt(d: int, s: int, u: int = 0) -> _dt.datetime:
    return EPOCH + _dt.timedelta(days=d, seconds=s, microseconds=u)


def dt_to_inst(t: _dt.datetime) -> Dict[str, int]:
    delta = t - EPOCH
    return {"d": delta.days, "s": delta.seconds, "u": delta.microseconds}


@functools.lru_cache(maxsize=None)
def zone_table(name: str, y0: int = 2014, y1: int = 2037) -> List[Dict[str, int]]:
    """Transitions of the SYSTEM tz database: [{d, s, off}] sorted, first entry = offset at the start."""
    z = ZoneInfo(name)
    start = _dt.datetime(y0, 1, 1, tzinfo=_dt.timezone.utc)
    end = _dt.datetime(y1, 1, 1, tzinfo=_dt.timezone.utc)

    def off(t: _dt.datetime) -> int:
        return int(t.astimezone(z).utcoffset().total_seconds())  # type: ignore[union-attr]

    out = [{"d": 0, "s": 0, "off": off(start)}]
    t = start
    step = _dt.timedelta(days=1)
    cur = off(t)
    while t < end:
        n = t + step
        if off(n) != cur:
            lo, hi = t, n
            while (hi - lo).total_seconds() > 1:
                mid = lo + (hi - lo) / 2
                mid = mid.replace(microsecond=0)
                if off(mid) == cur:
                    lo = mid
                else:
                    hi = mid
            cur = off(hi)
            i = dt_to_inst(hi)
            out.append({"d": i["d"], "s": i["s"], "off": cur})
        t = n
    return out


def pytz_agrees(name: str, d: int, s: int) -> bool:
    t = inst_to_dt(d, s)
    a = t.astimezone(ZoneInfo(name)).utcoffset()
    b = t.astimezone(pytz.timezone(name)).utcoffset()
    return a == b


def render_field(items: List[Dict[str, Any]]) -> str:
    parts = []
    for it in items:
        if it["k"] == "star":
            parts.append("*")
        elif it["k"] == "step":
            parts.append(f"*/{it['s']}")
        elif it["k"] == "num":
            parts.append(str(it["a"]))
        elif it["s"] == 1:
            parts.append(f"{it['a']}-{it['b']}")
        else:
            parts.append(f"{it['a']}-{it['b']}/{it['s']}")
    return ",".join(parts)


class _Clock:
    now_utc = EPOCH


def _install_clock() -> None:
    class FakeDT(_dt.datetime):
        @classmethod
        def now(cls, tz: Any = None) -> Any:  # type: ignore[override]
            t = _Clock.now_utc
            if tz is None:
                return t.replace(tzinfo=None)
            return t.astimezone(tz)

        @classmethod
        def utcnow(cls) -> Any:  # type: ignore[override]
            return _Clock.now_utc.replace(tzinfo=None)
    sched_run.datetime = FakeDT  # type: ignore[attr-defined]


def _spec_value(items: List[Dict[str, Any]]) -> Any:
    """A CronSpec field: an int for a single number, else the field text."""
    if len(items) == 1 and items[0]["k"] == "num":
        return items[0]["a"]
    return render_field(items)


_SHORTCUT: Dict[str, Any] = {}


def _via_task_shortcut(spec: Any) -> Any:
    """ScheduledTask that reaches a schedule source when a decorated task is scheduled with a CronSpec."""
    import asyncio

    from taskiq import ScheduleSource
    from taskiq.brokers.inmemory_broker import InMemoryBroker

    if not _SHORTCUT:
        broker = InMemoryBroker()

        @broker.task(task_name="calc_shortcut")
        async def job() -> None:
            return None

        class Capture(ScheduleSource):
            last: Any = None

            async def get_schedules(self) -> List[Any]:
                return []

            async def add_schedule(self, schedule: Any) -> None:
                Capture.last = schedule
        _SHORTCUT.update(task=job, src=Capture(), cls=Capture)
    loop = asyncio.new_event_loop()
    try:
        loop.run_until_complete(_SHORTCUT["task"].schedule_by_cron(_SHORTCUT["src"], spec))
    finally:
        loop.close()
    return _SHORTCUT["cls"].last


def run(scn: Dict[str, Any]) -> Dict[str, Any]:
    """scn = {"calls": [...], "tz": optional host TZ}; returns {"cfg": {"zones": tables}, "ev": [...]}."""
    import os
    import time as _time
    _install_clock()
    old_tz = os.environ.get("TZ")
    if scn.get("tz"):
        os.environ["TZ"] = scn["tz"]          # the host's local zone must not matter
        _time.tzset()
    try:
        return _run(scn)
    finally:
        if scn.get("tz"):
            if old_tz is None:
                os.environ.pop("TZ", None)
            else:
                os.environ["TZ"] = old_tz
            _time.tzset()


def _run(scn: Dict[str, Any]) -> Dict[str, Any]:
    ev = []
    for c in scn["calls"]:
        if c["e"] == "cron":
            expr = " ".join(render_field(f) for f in c["f"])
            o = c["o"]
            if o["k"] == "none":
                off: Any = None
            elif o["k"] == "delta":
                off = _dt.timedelta(seconds=o["sec"])
            else:
                off = ZONES[o["z"] - 1]
            _Clock.now_utc = inst_to_dt(c["day"], c["sod"], c.get("us", 0))
            if c.get("via_spec"):
                # the public way to build a cron schedule: CronSpec -> to_cron()
                from taskiq.scheduler.scheduled_task import CronSpec
                spec = CronSpec(minutes=_spec_value(c["f"][0]), hours=_spec_value(c["f"][1]), days=_spec_value(c["f"][2]),
                                months=_spec_value(c["f"][3]), weekdays=_spec_value(c["f"][4]), offset=off)
                expr = spec.to_cron()
                off = spec.offset
                if c["sod"] % 2 == 0:
                    # the shortcut on the decorated task: task.schedule_by_cron(source, CronSpec(...)) - what the source is handed
                    built = _via_task_shortcut(spec)
                    if built is not None:
                        expr, off = built.cron, built.cron_offset
            extra: Dict[str, Any] = {}
            if c.get("also_time"):
                # an entry that carries a `time` next to its cron expression: it is a cron schedule, the time changes nothing
                extra["time"] = _Clock.now_utc + _dt.timedelta(seconds=c["also_time"])
            task = ScheduledTask(task_name="t", labels={}, args=[], kwargs={}, cron=expr, cron_offset=off, **extra)
            try:
                res = sched_run.get_task_delay(task)
                r = -1 if res is None else int(res)
            except Exception as exc:  # noqa: BLE001
                r = -99
            ev.append({"e": "cron", "f": c["f"], "o": {"k": o["k"], "sec": o.get("sec", 0), "z": o.get("z", 0)},
                       "day": c["day"], "sod": c["sod"], "res": r, "now": {"d": 0, "s": 0, "u": 0}, "T": {"d": 0, "s": 0, "u": 0}})
        else:
            now = c["now"]
            T = c["T"]
            _Clock.now_utc = inst_to_dt(now["d"], now["s"], now["u"])
            t = inst_to_dt(T["d"], T["s"], T["u"])
            sp = c.get("spell", ["naive"])
            if sp[0] == "naive":
                tt = t.replace(tzinfo=None)
            elif sp[0] == "utc":
                tt = t
            elif sp[0] == "fixed":
                tt = t.astimezone(_dt.timezone(_dt.timedelta(minutes=sp[1])))
            elif sp[0] == "pytz":
                tt = t.astimezone(pytz.timezone(sp[1]))
            else:
                tt = t.astimezone(ZoneInfo(sp[1]))
            toff: Any = None
            if c.get("off"):
                toff = _dt.timedelta(seconds=c["off"]["sec"]) if c["off"]["k"] == "delta" else ZONES[c["off"]["z"] - 1]
            task = ScheduledTask(task_name="t", labels={}, args=[], kwargs={}, time=tt, cron_offset=toff)
            try:
                res = sched_run.get_task_delay(task)
                r = -1 if res is None else int(res)
            except Exception:  # noqa: BLE001
                r = -99
            ev.append({"e": "time", "f": [], "o": {"k": "none", "sec": 0, "z": 0}, "day": 0, "sod": 0, "res": r, "now": now, "T": T})
    return {"cfg": {"zones": [zone_table(z) for z in ZONES]}, "ev": ev}

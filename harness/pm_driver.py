"""Process-manager driver: the real ProcessManager.start() against OS-faithful fakes (C17, C18).

Scenario: {"cfg": {"workers": 2, "max_fails": 1, "reload": false},
           "ticks": [{"sleep": [["die", 0], ["sighup"]], "drained": [["sigint"]]}, ...]}
Injection points per supervision tick: "sleep" = while the manager sleeps (before it drains the action
queue), "drained" = after the queue was found empty and before the liveness scan.
Events: {"e", "slot", "pid", "n", "s"}:
  tick(n, pid=len(workers)) | die(slot,pid,s=pos) | sighup(s=pos) | sigint(s=pos) | sigterm | reload(s=pos) |
  start(slot,pid) | terminate(pid) | join(pid) | found_dead(slot,pid) | kill(pid, s=ok|lookup_error) |
  ret(n=code) | raised(s) | eot
"""
from __future__ import annotations

import logging
import signal
from typing import Any, Callable, Dict, List, Optional

from taskiq.cli.worker import process_manager as pm
from taskiq.cli.worker.args import WorkerArgs

logging.disable(logging.CRITICAL)
EV0 = {"e": "", "slot": -1, "pid": 0, "n": 0, "s": ""}


class StopRun(BaseException):
    pass


class World:
    def __init__(self, scn: Dict[str, Any]) -> None:
        self.scn = scn
        self.events: List[Dict[str, Any]] = []
        self.next_pid = 1000
        self.procs: Dict[int, "FakeProcess"] = {}
        self.handlers: Dict[int, Callable[..., Any]] = {}
        self.tick = 0
        self.manager: Any = None
        self.drained_done_for_tick = -1

    def rec(self, e: str, **kw: Any) -> None:
        ev = dict(EV0)
        ev["e"] = e
        ev.update(kw)
        self.events.append(ev)

    def inject(self, pos: str) -> None:
        ticks = self.scn["ticks"]
        if self.tick - 1 >= len(ticks):
            return
        for ev in ticks[self.tick - 1].get(pos, []):
            kind = ev[0]
            if kind == "die":
                slot = ev[1]
                workers = self.manager.workers
                if slot < len(workers) and workers[slot].alive:
                    workers[slot].alive = False
                    workers[slot].exit_status = ev[2] if len(ev) > 2 else 1       # 0 = clean exit (e.g. max-tasks recycle)
                    self.rec("die", slot=slot, pid=workers[slot].pid, s=pos)
                else:
                    self.rec("noop", s=pos)
            elif kind == "sighup":
                self.rec("sighup", s=pos)
                self.handlers[signal.SIGHUP](signal.SIGHUP, None)
            elif kind == "sigint":
                self.rec("sigint", s=pos)
                self.handlers[signal.SIGINT](signal.SIGINT, None)
            elif kind == "sigterm":
                self.rec("sigint", s=pos)
                self.handlers[signal.SIGTERM](signal.SIGTERM, None)
            elif kind == "reload":
                self.rec("reload", s=pos)
                pm.schedule_workers_reload(self.manager.action_queue)


WORLD: Optional[World] = None


class FakeProcess:
    def __init__(self, target: Any = None, kwargs: Any = None, name: str = "", daemon: bool = False) -> None:
        self.name = name
        self.pid: Optional[int] = None
        self.alive = False
        self.reaped = False
        self.started = False
        self.exit_status = 0

    @property
    def exitcode(self) -> Optional[int]:
        """Like multiprocessing: None while running, the exit status afterwards."""
        if self.alive or not self.started:
            return None
        return self.exit_status

    def _slot(self) -> int:
        try:
            return int(self.name.split("-")[1])
        except Exception:  # noqa: BLE001
            return -1

    def start(self) -> None:
        w = WORLD
        assert w is not None
        w.next_pid += 1
        self.pid = w.next_pid
        self.alive = True
        self.started = True
        w.procs[self.pid] = self
        w.rec("start", slot=self._slot(), pid=self.pid)
        ticks = w.scn["ticks"]
        if (w.tick == 0 and self._slot() in w.scn["cfg"].get("boot0", [])) or \
                (1 <= w.tick <= len(ticks) and self._slot() in ticks[w.tick - 1].get("boot", [])):
            # the replacement crashes while booting: dead before the manager looks at it for the first time
            self.alive = False
            self.exit_status = 1
            w.rec("die", slot=self._slot(), pid=self.pid, s="boot")

    def terminate(self) -> None:
        assert WORLD is not None
        WORLD.rec("terminate", pid=self.pid or 0)
        self.exit_status = -15
        if WORLD.scn["cfg"].get("slow_stop") and self.alive:
            self.stopping = True       # graceful shutdown takes a while: still alive until waited for
        else:
            self.alive = False

    def join(self, timeout: Any = None) -> None:
        assert WORLD is not None
        slow = bool(WORLD.scn["cfg"].get("slow_stop"))
        if (getattr(self, "stopping", False) or (slow and getattr(self, "signalled", False) and self.alive)) and timeout is not None:
            WORLD.rec("join", pid=self.pid or 0, s="timeout")     # gave up waiting: the process is still running
            return
        WORLD.rec("join", pid=self.pid or 0)
        self.stopping = False
        self.alive = False
        self.reaped = True

    def is_alive(self) -> bool:
        w = WORLD
        assert w is not None
        if not self.alive and self.started and not self.reaped:
            self.reaped = True        # like multiprocessing: polling a dead child reaps it
        if not self.alive and w.manager is not None and self in w.manager.workers:
            w.rec("found_dead", slot=w.manager.workers.index(self), pid=self.pid or 0)
        return self.alive


class FakeQueue:
    def __init__(self, maxsize: int = 0) -> None:
        self.items: List[Any] = []
        self.maxsize = maxsize

    def put(self, x: Any) -> None:
        if self.maxsize > 0 and len(self.items) >= self.maxsize:
            # the manager is the only consumer of this queue: a put() on a full queue would block it for ever
            raise RuntimeError("manager blocks on its own full action queue")
        self.items.append(x)

    def get(self) -> Any:
        return self.items.pop(0)

    def empty(self) -> bool:
        w = WORLD
        assert w is not None
        res = not self.items
        if res and w.tick > 0 and w.drained_done_for_tick != w.tick:
            w.drained_done_for_tick = w.tick
            w.inject("drained")      # arrives after the queue was seen empty: handled in the next tick
        return res


class FakeEvent:
    def __init__(self) -> None:
        self.waits = 0

    def wait(self, timeout: Any = None) -> bool:
        self.waits += 1
        if self.waits > 300:
            raise RuntimeError("manager spins in a startup wait")     # would hang forever: no supervision any more
        return True


def fake_sleep(sec: float) -> None:
    w = WORLD
    assert w is not None
    w.tick += 1
    if w.tick > len(w.scn["ticks"]):
        raise StopRun
    w.rec("tick", n=w.tick, pid=len(w.manager.workers))
    w.inject("sleep")


def fake_kill(pid: int, sig: int) -> None:
    w = WORLD
    assert w is not None
    p = w.procs.get(pid)
    if p is None or p.reaped:
        w.rec("kill", pid=pid, s="lookup_error")
        raise ProcessLookupError(pid)
    w.rec("kill", pid=pid, s="ok")
    p.signalled = True           # told to stop; a worker that drains its tasks takes a while to go away


class _CurProc:
    name = "MainProcess"


class _FakeSignalModule:
    SIGINT = signal.SIGINT
    SIGTERM = signal.SIGTERM
    SIGHUP = signal.SIGHUP

    @staticmethod
    def signal(signum: int, handler: Any) -> None:
        assert WORLD is not None
        WORLD.handlers[signum] = handler


class _FakeOs:
    kill = staticmethod(fake_kill)


def run(scn: Dict[str, Any]) -> List[Dict[str, Any]]:
    global WORLD
    w = World(scn)
    WORLD = w
    saved = {k: getattr(pm, k) for k in ("Process", "Queue", "Event", "sleep", "os", "signal", "current_process")}
    try:
        pm.Process = FakeProcess  # type: ignore[misc,assignment]
        pm.Queue = FakeQueue  # type: ignore[misc,assignment]
        pm.Event = FakeEvent  # type: ignore[misc,assignment]
        pm.sleep = fake_sleep  # type: ignore[assignment]
        pm.os = _FakeOs  # type: ignore[assignment]
        pm.signal = _FakeSignalModule  # type: ignore[assignment]
        pm.current_process = lambda: _CurProc()  # type: ignore[assignment]
        cfg = scn["cfg"]
        via_cli = cfg.get("via") == "cli"
        if via_cli:
            # the manager as `taskiq worker` builds it: WorkerArgs.from_cli(argv) -> run_worker(args); unrelated options carry
            # tell-tale values that must not end up as the number of workers or as the failure budget
            from taskiq.cli.worker import run as cli_run

            class CapturedManager(pm.ProcessManager):
                def __init__(self, *a: Any, **k: Any) -> None:
                    w.manager = self
                    super().__init__(*a, **k)

            reload_mode = bool(cfg.get("reload")) and cfg["workers"] == 1       # --reload runs exactly one worker

            class FakeObserver:
                """Stands for watchdog's Observer (not installed here): file changes arrive as scenario events instead."""
                alive = False

                def start(self) -> None:
                    self.alive = True

                def is_alive(self) -> bool:
                    return self.alive

                def stop(self) -> None:
                    self.alive = False

                def schedule(self, *a: Any, **k: Any) -> None:
                    pass

            args = WorkerArgs.from_cli((["--reload"] if reload_mode else []) +
                                       ["b:b", "--workers", str(cfg["workers"]), "--max-fails", str(cfg["max_fails"]), "--no-configure-logging",
                                        "--max-async-tasks", "7", "--max-prefetch", "5", "--hardkill-count", "4", "--max-threadpool-threads", "6",
                                        "--shutdown-timeout", "9", "--max-tasks-per-child", "8"])
            saved_pm_cls = cli_run.ProcessManager
            saved_obs = (cli_run.Observer, pm.FileWatcher)
            cli_run.ProcessManager = CapturedManager  # type: ignore[misc,assignment]
            if reload_mode:
                cli_run.Observer = FakeObserver  # type: ignore[misc,assignment]
                pm.FileWatcher = lambda **k: None  # type: ignore[misc,assignment]

            def start() -> Any:
                try:
                    return cli_run.run_worker(args)
                finally:
                    cli_run.ProcessManager = saved_pm_cls  # type: ignore[misc]
                    cli_run.Observer, pm.FileWatcher = saved_obs  # type: ignore[misc]
        else:
            args = WorkerArgs(broker="b", modules=[], workers=cfg["workers"], max_fails=cfg["max_fails"], reload=bool(cfg.get("reload", False)))
            manager = pm.ProcessManager(args, worker_function=lambda args: None)
            w.manager = manager
            start = manager.start
        try:
            ret = start()
            w.rec("ret", n=0 if ret is None else (ret if ret in (-1, 0) else 99))
        except StopRun:
            w.rec("eot", pid=len(w.manager.workers))
        except BaseException as exc:  # noqa: BLE001
            w.rec("raised", s=type(exc).__name__)
        return w.events
    finally:
        for k, v in saved.items():
            setattr(pm, k, v)
        WORLD = None


if __name__ == "__main__":
    import json
    import sys
    for e in run(json.load(open(sys.argv[1]))):
        print({k: v for k, v in e.items() if v != EV0.get(k) or k == "e"})

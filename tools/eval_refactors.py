#!/usr/bin/env python3
"""False-alarm test: apply each behaviour-preserving refactor (refactors/<id>/patch.diff) to a scratch worktree and run checks.
Every check must exit 0 without a VIOLATION line.  usage: eval_refactors.py [refactor id ...]   (writes refactors/RESULTS.md)"""
import json, os, shutil, subprocess, sys, tempfile

ROOT = os.path.dirname(os.path.dirname(os.path.abspath(__file__)))

CHECKS = {"R1_receiver_ack_helper": ["C01", "C02", "C03", "C04", "C05", "C06", "C07", "C10", "C12"],
          "R2_scheduler_kicker": ["C09", "C10", "C11", "C14", "C15", "C16"],
          "R3_procman_retry": ["C11", "C17", "C18"],
          "R4_serialization_params": ["C08", "C19", "C20"],
          "R5_prefetch_no_lookahead": ["C01", "C03", "C04", "C05"],
          "R6_receiver_ack_positions_poll": ["C01", "C02", "C03", "C04", "C05", "C06", "C07", "C10", "C12"],
          "R7_procman_orders": ["C17", "C18"],
          "R8_scheduler_variants": ["C13", "C14", "C15", "C16"],
          "R9_kicker_retry_params_orders": ["C08", "C09", "C10", "C11", "C16"],
          "R10_serialization_orders": ["C19", "C20", "C07"],
          "R11_scheduler_wake_margin": ["C13", "C14", "C15", "C16"],
          # written by independent sub-agents (given only the property texts and a scratch worktree)
          "R12_receiver_listen_restructure": ["C01", "C03", "C04", "C05"],
          "R13_receiver_callback_path": ["C01", "C02", "C03", "C04", "C05", "C06", "C07", "C10", "C12"],
          "R14_periphery_inmem_context_api": ["C01", "C05", "C07", "C09", "C10", "C12"],
          "R15_sched_loop_two_phase": ["C15", "C16"],
          "R16_sched_delay_split": ["C13", "C14", "C15", "C16"],
          "R17_kicker_label_lookup": ["C09", "C10", "C11", "C15", "C16"],
          "R18_spawn_helper_params_split": ["C08", "C17", "C18"],
          "R19_procman_start_split": ["C17", "C18"],
          "R20_retry_decor_procman": ["C11", "C17", "C18", "C09"],
          "R21_ser_prepare_helpers": ["C19", "C20", "C07"],
          "R22_ser_load_labels": ["C19", "C20", "C09"],
          "R23_ser_cycle_adapter_formatters": ["C19", "C20", "C08", "C09"]}

def sh(cmd):
    return subprocess.run(cmd, shell=True, capture_output=True, text=True)

rows = []
for rid in (sys.argv[1:] or sorted(CHECKS)):
    wt = tempfile.mkdtemp(prefix="verif-rf-", dir="/tmp"); os.rmdir(wt)
    assert sh(f"git -C /repo worktree add -q --detach {wt} HEAD").returncode == 0
    try:
        r = sh(f"git -C {wt} apply {ROOT}/refactors/{rid}/patch.diff")
        assert r.returncode == 0, r.stderr
        for p in CHECKS[rid]:
            env = dict(os.environ, VERIF_REPO=wt)
            r = subprocess.run([ROOT + "/check", p, "--tier", "quick"], env=env, capture_output=True, text=True)
            out = r.stdout + r.stderr
            div = out.count("DIVERGENCE")
            status = "QUIET" if r.returncode == 0 and "VIOLATION" not in out else ("FALSE-ALARM" if r.returncode == 1 else "MACHINERY")
            rows.append((rid, p, status, div))
            print(rid, p, status, "divergences:", div, flush=True)
    finally:
        sh(f"git -C /repo worktree remove --force {wt}")
        shutil.rmtree(wt, ignore_errors=True)
prev = []
if sys.argv[1:] and os.path.exists(ROOT + "/refactors/RESULTS.md"):
    for line in open(ROOT + "/refactors/RESULTS.md"):
        c = [x.strip() for x in line.strip().strip("|").split("|")]
        if len(c) == 4 and c[0].startswith("R") and c[0] not in sys.argv[1:]:
            prev.append((c[0], c[1], c[2], int(c[3])))
rows = prev + rows
with open(ROOT + "/refactors/RESULTS.md", "w") as f:
    f.write("# Behaviour-preserving refactors: no check may raise an alarm\n\n| refactor | check | result | model divergences reported |\n|---|---|---|---|\n")
    for r in rows:
        f.write("| %s | %s | %s | %d |\n" % r)

#!/usr/bin/env python3
"""Regenerate MANIFEST.json from the table below (keeps it valid and in one place)."""
import json, os
ROOT = os.path.dirname(os.path.dirname(os.path.abspath(__file__)))

RX_NOTE = ("Trusted base: TLC 1.8, the TLA+ clause text in spec/RxProps.tla, the scripted broker/backend/middleware/dependency recorders and the "
           "virtual-time loop in harness/ (FIFO ready queue as in stock asyncio; time moves only at quiescence). Exhaustive only for the model "
           "configurations listed in the evidence; real executions are model-derived (TLC -simulate), bounded-enumerated and seeded-random.")
CL_NOTE = ("Trusted base: TLC 1.8, the clause text in spec/ClProps.tla, the recording broker/backend/middlewares of harness/cl_driver.py and its mapping of observed "
           "label values back to pool ids (exact type + bit pattern). Concrete values inside a class are sampled (pool), not enumerated.")
CALC_NOTE = ("Trusted base: TLC 1.8, spec/Cron.tla, the system tz database read through zoneinfo (zone transition tables), the clock substitution in harness/calc_driver.py. "
             "A data-shaped property: the spec is the oracle for each call; inputs are enumerated over boundary classes and sampled elsewhere (not exhaustive over all instants).")
SCH_NOTE = ("Trusted base: TLC 1.8, spec/SchProps.tla / LblProps.tla, the virtual-time loop and clock substitution (wall clock = base + loop time), scripted sources/broker. "
            "Cron schedules in C15 scenarios use minute-field patterns only (calendar semantics are C13's subject); listing latency is not varied.")
PM_NOTE = ("Trusted base: TLC 1.8, spec/PmProps.tla, the fakes of harness/pm_driver.py (their OS contract: polling/joining a dead child reaps it, os.kill on a reaped pid "
           "raises ProcessLookupError). Real processes and signals are not used; the file watcher thread is replaced by calling schedule_workers_reload.")
PAR_NOTE = ("Trusted base: TLC 1.8, spec/Params.tla, harness/par_driver.py (exec-generated task functions reporting locals(); 'converted' defined by pydantic.TypeAdapter). "
            "The case analysis (which parameter's annotation is applied to which argument) is enumerated exhaustively; concrete values per class and JSON value fidelity are sampled.")
EXC_NOTE = ("Trusted base: TLC 1.8, spec/ExcCodec.tla, harness/exc_driver.py (fixture module with recording traps planted in sys.modules; projection of decoded objects "
            "to same-class / args-equal / names-original flags). Data-shaped property: the case analysis is enumerated, concrete argument values are fixed pools.")
CHECKS = {
 "C01": ("Receiver.tla model-checked (all interleavings of prefetcher/runner/look-ahead fetch/callbacks, every stop instant) + clauses C01_* of RxProps evaluated by TLC on every prefix of traces recorded from the real Receiver.listen(); conformance of those traces to the model", "5/C01"),
 "C02": ("pipeline model (one action per real suspension) model-checked for 3 ack types x sync/async ack x outcomes x backend failure; clauses C02_* judged on every prefix (= crash point) of real traces", "5/C02"),
 "C03": ("slot conservation law as model invariant + C03_Limit/Serial on every event and saturation probes after fault histories on the real code; for ALL A >= 1, P, N: inductive invariant of the statement-level flow model FlowAbs.tla discharged by Apalache (live <= A), real traces with A <= 9 validated as FlowAbs behaviours by TLC (TraceFlow.tla)", "5/C03, 10.7"),
 "C04": ("counting invariants (queue <= P+1, live <= A) model-checked; C04_Bound evaluated after every event of saturation/burst/idle-poll runs of the real code; for ALL A >= 1, P, N: inductive invariant of FlowAbs.tla discharged by Apalache (taken - finished <= A + P + 1, tight), real traces with A <= 9, P <= 7 validated as FlowAbs behaviours by TLC (TraceFlow.tla)", "5/C04, 10.7"),
 "C05": ("timed model (poll 3 ticks, drain timeout) model-checked with stop at every instant; clauses C05_* on real traces with stop inserted at every position; KF-C05-1 classified by signature", "5/C05"),
 "C06": ("shared dependency-context dict modelled explicitly (sub-context capture time); C06_OwnContext/ResultBinding on real overlapping executions with un-cached/nested/suspending dependencies", "5/C06"),
 "C07": ("outcome x timeout x backend-failure pipeline model; C07_* clauses compare the stored result with the scripted outcome on real traces", "5/C07"),
 "C10": ("execution side: hook order as the straight-line pipeline program of Receiver.tla, C10_ExecOrder/HookOnce/Complete per message on real traces with generated middleware stacks; send side: pre_send -> kick -> post_send sequence of Client.tla, C10_SendOrder/SendComplete on real kiq() calls incl. failing kick and retry re-sends", "5/C10"),
 "C08": ("parse_params' signature walk transcribed as a decision table with its running index (Params.tla); TLC enumerates every legal signature (<= 3-4 parameters) x every legal positional/keyword split and checks the binding law; the same cases, concretised with seeded values per class, run through the real kicker -> formatter -> Receiver and each recorded call is judged by TLC", "5/C08"),
 "C09": ("object-identity model of task/kicker label dicts + typed label transfer over first delivery / retry / requeue (Client.tla) model-checked over call histories; ClProps clauses evaluated by TLC on traces of the real kicker/receiver/retry middleware for a pool of 40 extreme concrete values x 2 serializers", "5/C09"),
 "C11": ("retry state machine (attempt counter travelling as a typed label) model-checked for max_retries 0..6 x flag encodings x no_result_on_retry x all outcome sequences; clauses C11_* on real traces through a real encode/decode cycle per attempt", "5/C11"),
 "C13": ("calendar + cron matcher + zone offset lookup transcribed into integer TLA+ (Cron.tla), its arithmetic model-checked day by day 1970-2100; every recorded call of the real get_task_delay under a controlled clock judged by TLC (minute-exhaustive over DST/month-end/leap days, random instants 2015-2035, grammar-generated expressions, timedelta grid +-26h, 14 IANA zones)", "5/C13"),
 "C14": ("delay specified as a relation (DelayOK) over split instants; boundary lattice (second-of-minute x microsecond x T-now offsets around now, horizon, +-2 days) x zone spellings + random pairs, each real call judged by TLC", "5/C14"),
 "C15": ("scheduler loop model (poll rounds as the code's atomic blocks, look-ahead, in-flight sends, faults; 12-unit minute) model-checked over all start offsets x one-shot target times x fault placements; SchProps clauses evaluated by TLC on traces of the real run_scheduler_loop on the virtual clock (real 60 s minutes, start offsets at ms resolution, 2-30 virtual minutes, dynamic add/remove, failing sources/kicks)", "5/C15"),
 "C16": ("on_ready stage counters (pre_send/cancel/kick payload/post_send) on the same scheduler traces + LabelScheduleSource entry-table model (LabelSrc.tla) model-checked over all entry lists <= 3-4 (also with shared / alternating explicit schedule ids), firing orders and adoption of a foreign task; listing/removal clauses (LblProps) on the real source", "5/C16"),
 "C17": ("process-manager state machine (sleep / drain / scan, action queue, two injection points per tick) model-checked over all histories up to the tick bound; C17 clauses (join before replacement start, slot count, replaced within two ticks) on traces of the real ProcessManager.start() with OS-faithful fakes", "5/C17"),
 "C18": ("same model; budget (exit -1 exactly when max_fails unexpected exits were handled), reload-all (every slot once per tick) and shutdown (live workers signalled once, nothing else, success status) clauses on real traces", "5/C18"),
 "C19": ("encoder walk with the SEEN-as-current-path rule and the decoder's class/argument decision table transcribed in ExcCodec.tla (unfolding model-checked over all 3-node graphs); every link shape over <= 2-3 nodes x class kinds x argument kinds x {JSON text, JSON dict, pickle} built as real exception objects, round-tripped through TaskiqResult, projected back and judged by TLC", "5/C19"),
 "C20": ("resolution decision table (module lookup in loaded modules, attribute walk, BaseException gate, recursion into cause/context) in ExcCodec.tla; the whole table x nesting positions x 3 entry points executed against a fixture world of recording traps; outcomes judged by TLC", "5/C20"),
 "C12": ("dependency open/close order modelled after the resolver; C12_* clauses on real traces for all shapes up to 3 teardown-style dependencies; KF-C12-1 classified by signature", "5/C12"),
}
PENDING = {
 "C08": "check under construction (Params.tla + driver not committed yet)",
 "C09": "check under construction (Client.tla + driver not committed yet)",
 "C11": "check under construction (Client.tla retry part not committed yet)",
 "C13": "check under construction (Cron.tla not committed yet)",
 "C14": "check under construction (Delay.tla not committed yet)",
 "C15": "check under construction (Scheduler.tla not committed yet)",
 "C16": "check under construction (Scheduler.tla on_ready/label source part not committed yet)",
 "C17": "check under construction (ProcMan.tla not committed yet)",
 "C18": "check under construction (ProcMan.tla not committed yet)",
 "C19": "check under construction (ExcCodec.tla not committed yet)",
 "C20": "check under construction (ExcCodec.tla not committed yet)",
}
def main():
    checks = []
    for pid, (text, ref) in sorted(CHECKS.items()):
        checks.append({
            "property_id": pid,
            "quick_cmd": f"./check {pid} --tier quick",
            "thorough_cmd": f"./check {pid} --tier thorough",
            "evidence_file": f"evidence/{pid}.json",
            "replay_cmd_template": f"./check {pid} --replay {{path}}",
            "engine": "tlc-model+trace",
            "level_claimed": {"category": "model_checking", "text": text, "design_ref": ref},
            "level_note": RX_NOTE if pid in ("C01","C02","C03","C04","C05","C06","C07","C10","C12") else (CALC_NOTE if pid in ("C13","C14") else (SCH_NOTE if pid in ("C15","C16") else (PM_NOTE if pid in ("C17","C18") else (PAR_NOTE if pid == "C08" else (EXC_NOTE if pid in ("C19","C20") else CL_NOTE))))),
            "technique": "explicit TLA+ spec checked by TLC; verdict = spec property clauses evaluated by TLC on traces recorded from the real code; trace conformance to the spec"
                         + ("; parametric inductive invariant of the TLA+ flow model checked with Apalache" if pid in ("C03", "C04") else ""),
        })
    man = {
        "version": 1,
        "setup_cmd": "sh tools/setup.sh",
        "hooks": {"guard": "TASKIQ_VERIF", "enable": "no source hooks: all observation is at API boundaries (scripted broker/backend/middleware/dependencies); the checks import taskiq from /repo's working tree",
                  "baseline_off_cmd": "cd /repo && /venv/bin/python -m pytest -ra -q -p no:cacheprovider --timeout=900 --continue-on-collection-errors",
                  "source_commits": [], "add_only": True},
        "engines": [
            {"name": "tlc-model+trace", "path": "engine/", "serves_properties": sorted(CHECKS), "kind_free_text": "TLC model checking of spec/*.tla + TLC trace observer/conformance over traces recorded from the real code on a virtual-time asyncio loop"},
            {"name": "apalache-inductive", "path": "engine/flow.py", "serves_properties": ["C03", "C04"], "kind_free_text": "Apalache discharges the inductive invariant of spec/FlowAbs.tla for all A, P, N; TLC (TraceFlow.tla) validates recorded traces as FlowAbs behaviours"},
        ],
        "checks": checks,
        "notes": "fix: commits in /repo (11, D1-D11) are listed in known_findings.json (status fixed). Open known findings: KF-C05-1, KF-C12-1. Seeded changes and refactors used to evaluate the checks: seeded/, refactors/ (DESIGN.md section 10).",
        "not_applicable": [{"property_id": k, "reason": v} for k, v in sorted(PENDING.items()) if k not in CHECKS],
    }
    json.dump(man, open(os.path.join(ROOT, "MANIFEST.json"), "w"), indent=1)
main()

#!/bin/sh
# Offline setup: nothing to build; create output dirs and syntax-check every spec.
cd "$(dirname "$0")/.." || exit 1
mkdir -p evidence replays
for f in spec/*.tla; do
  (cd spec && tla-sany "$(basename "$f")" > /tmp/.sany.$$ 2>&1) || { cat /tmp/.sany.$$; rm -f /tmp/.sany.$$; echo "SANY failed on $f"; exit 1; }
  if grep -q "Semantic errors\|Parsing or semantic analysis failed\|\*\*\* Errors" /tmp/.sany.$$; then cat /tmp/.sany.$$; rm -f /tmp/.sany.$$; echo "SANY failed on $f"; exit 1; fi
done
rm -f /tmp/.sany.$$
/venv/bin/python -c "import sys; sys.path.insert(0,'/repo'); import taskiq" || exit 1
echo setup ok

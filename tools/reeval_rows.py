#!/usr/bin/env python3
"""Re-evaluate some seeded changes and replace / add their rows in seeded/RESULTS.md.  usage: reeval_rows.py <id> [<id> ...]"""
import json, os, re, subprocess, sys

path = "/verif/seeded/RESULTS.md"
lines = open(path).read().splitlines()
rows = {}
order = []
head, tail = [], []
for ln in lines:
    m = re.match(r"\| (C\d+_\w+) \|", ln)
    if m:
        rows[m.group(1)] = ln
        order.append(m.group(1))
    elif not rows:
        head.append(ln)
for mid in sys.argv[1:]:
    out = subprocess.run(["python3", "/verif/tools/eval_seeded.py", f"/verif/seeded/{mid}"], capture_output=True, text=True).stdout
    status, check, clauses = "MISSED", "", []
    for ln in out.splitlines():
        m = re.match(r"(\S+) check=(\S+) -> (\S+)", ln)
        if m and status != "DETECTED":
            check, status = m.group(2), m.group(3)
        c = re.search(r"clause (\w+)", ln)
        if c and c.group(1) not in clauses:
            clauses.append(c.group(1))
    meta = json.load(open(f"/verif/seeded/{mid}/meta.json"))
    rows[mid] = "| %s | %s | %s | %s | %s |" % (mid, meta.get("summary", "")[:160].replace("|", "/").replace("\n", " "),
                                            meta.get("needs", "")[:140].replace("|", "/").replace("\n", " "), status + " by " + check, ", ".join(clauses[:3]))
    if mid not in order:
        order.append(mid)
    print(mid, status, check)
order.sort()
det = sum(1 for k in order if "| DETECTED" in rows[k])
with open(path, "w") as f:
    f.write("\n".join(head) + "\n")
    for k in order:
        f.write(rows[k] + "\n")
    f.write("\n%d of %d detected.\n" % (det, len(order)))

#!/usr/bin/env python3
"""Evaluate seeded mutants: apply each patch to a scratch worktree of /repo and run checks.

usage: eval_seeded.py <dir with patch.diff/meta.json> [prop ...]   (prints DETECTED/MISSED)
The worktree lives under /tmp and is removed afterwards.
"""
import json, os, subprocess, sys, tempfile, shutil

def sh(cmd, **kw):
    return subprocess.run(cmd, shell=True, capture_output=True, text=True, **kw)

def main():
    d = os.path.abspath(sys.argv[1])
    meta = json.load(open(os.path.join(d, "meta.json")))
    props = sys.argv[2:] or meta.get("evaluate_with") or [meta["property"]]
    wt = tempfile.mkdtemp(prefix="verif-wt-", dir="/tmp")
    os.rmdir(wt)
    r = sh(f"git -C /repo worktree add -q --detach {wt} HEAD")
    assert r.returncode == 0, r.stderr
    try:
        r = sh(f"git -C {wt} apply {d}/patch.diff")
        assert r.returncode == 0, r.stderr
        for p in props:
            env = dict(os.environ, VERIF_REPO=wt, VERIF_SEED=os.environ.get("VERIF_SEED", "0"))
            r = subprocess.run([os.path.join(os.path.dirname(os.path.dirname(os.path.abspath(__file__))), "check"), p, "--tier", os.environ.get("VERIF_TIER", "quick")], env=env, capture_output=True, text=True)
            lines = [l for l in (r.stdout + r.stderr).splitlines() if l.startswith(("VIOLATION", "  detail", "MACHINERY", "DIVERGENCE", "KNOWN"))]
            status = "DETECTED" if r.returncode == 1 else ("MISSED" if r.returncode == 0 else "MACHINERY")
            print(f"{os.path.basename(d)} check={p} -> {status} (rc={r.returncode})")
            for l in lines[:4]:
                print("   ", l[:200])
    finally:
        sh(f"git -C /repo worktree remove --force {wt}")
        shutil.rmtree(wt, ignore_errors=True)

main()

#!/usr/bin/env python3
"""Confirm a sub-agent's seeded change and file it under /verif/seeded/<id>/.

Confirms in a fresh scratch worktree of /repo: demo passes on the clean tree, the patch applies,
the repository's test suite still has 146 passed, the demo fails with the patch.
usage: confirm_seeded.py <srcdir> [<srcdir> ...]
"""
import json, os, re, shutil, subprocess, sys, tempfile

def sh(cmd, **kw):
    return subprocess.run(cmd, shell=True, capture_output=True, text=True, **kw)

def confirm(src):
    src = os.path.abspath(src)
    mid = os.path.basename(src)
    meta = json.load(open(os.path.join(src, "meta.json")))
    wt = tempfile.mkdtemp(prefix="verif-cf-", dir="/tmp"); os.rmdir(wt)
    assert sh(f"git -C /repo worktree add -q --detach {wt} HEAD").returncode == 0
    try:
        demo = os.path.join(src, "demo.py")
        env = dict(os.environ, PYTHONPATH=wt)
        r0 = subprocess.run(["/venv/bin/python", demo], cwd=wt, env=env, capture_output=True, text=True, timeout=120)
        ap = sh(f"git -C {wt} apply {src}/patch.diff")
        if ap.returncode != 0:
            return mid, False, "patch does not apply: " + ap.stderr[:200]
        t = sh(f"cd {wt} && /venv/bin/python -m pytest -q -p no:cacheprovider --timeout=900 --continue-on-collection-errors 2>&1 | tail -3")
        m = re.search(r"(\d+) passed", t.stdout)
        passed = int(m.group(1)) if m else -1
        failed = re.search(r"(\d+) failed", t.stdout)
        r1 = subprocess.run(["/venv/bin/python", demo], cwd=wt, env=env, capture_output=True, text=True, timeout=120)
        ok = r0.returncode == 0 and r1.returncode != 0 and passed == 146 and not failed
        info = {"demo_clean_rc": r0.returncode, "demo_patched_rc": r1.returncode, "tests_passed_with_patch": passed,
                "base_commit": sh("git -C /repo rev-parse HEAD").stdout.strip()}
        if ok:
            dst = os.path.join("/verif/seeded", mid)
            os.makedirs(dst, exist_ok=True)
            shutil.copy(os.path.join(src, "patch.diff"), dst)
            shutil.copy(demo, dst)
            meta["confirmed"] = info
            meta["what_was_run"] = ("scratch worktree of /repo: demo.py on clean tree (rc 0), git apply patch.diff, full pytest suite "
                                    "(146 passed), demo.py with patch (rc != 0)")
            json.dump(meta, open(os.path.join(dst, "meta.json"), "w"), indent=1)
        return mid, ok, json.dumps(info)
    finally:
        sh(f"git -C /repo worktree remove --force {wt}")
        shutil.rmtree(wt, ignore_errors=True)

for s in sys.argv[1:]:
    try:
        print(*confirm(s), flush=True)
    except Exception as exc:
        print(os.path.basename(s), False, repr(exc), flush=True)
